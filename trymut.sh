#!/bin/bash
# trymut.sh <patch-or-"revert:<commit>"> <property> [tier]  — apply a change to /repo, run a check, undo it.
P="$1"; ID="$2"; TIER="${3:-quick}"
cd /repo || exit 2
if [ -n "$(git status --porcelain)" ]; then echo "repo dirty"; exit 2; fi
case "$P" in
  revert:*) git revert --no-commit "${P#revert:}" >/dev/null 2>&1 || { echo "revert failed"; git revert --abort 2>/dev/null; git checkout -- .; exit 2; } ;;
  *) git apply "$P" || { echo "apply failed"; exit 2; } ;;
esac
cd /verif && VERIF_BUDGET_S="${VERIF_BUDGET_S:-}" ./check "$ID" "$TIER" 2>&1 | grep -v "^dsim:   scenario\|^dsim: faults\|^dsim: probes" | tail -${TAILN:-8}
rc=${PIPESTATUS[0]}
cd /repo && { git revert --abort 2>/dev/null; git reset -q --hard HEAD; git status --porcelain | grep -v '^??' ; }
exit $rc
