#!/bin/bash
# trymut.sh <patch-or-"revert:<commit>"> <property> [tier]  — apply a change to a scratch clone of /repo (HEAD),
# run a check against it (VERIF_REPO), remove the clone. /repo itself is never touched. Writes no evidence.
P="$1"; ID="$2"; TIER="${3:-quick}"
case "$P" in revert:*) ;; /*) ;; *) P="$(pwd)/$P" ;; esac
SCR=$(mktemp -d /tmp/trymut.XXXXXX); trap 'rm -rf "$SCR"' EXIT
git clone -q /repo "$SCR/repo" || exit 2
cd "$SCR/repo" || exit 2
case "$P" in
  revert:*) git revert --no-commit "${P#revert:}" >/dev/null 2>&1 || { echo "revert failed"; exit 2; } ;;
  *) git apply "$P" || { echo "apply failed"; exit 2; } ;;
esac
cd /verif && VERIF_REPO="$SCR/repo" VERIF_NO_EVIDENCE=1 VERIF_BUDGET_S="${VERIF_BUDGET_S:-}" ./check "$ID" "$TIER" 2>&1 | grep -v "^dsim:   scenario\|^dsim: faults\|^dsim: probes" | tail -${TAILN:-8}
exit ${PIPESTATUS[0]}
