#!/bin/bash
# hunt_nondet.sh <PROP> [nruns] [gomaxprocs]: find a run whose hash differs between GOMAXPROCS=1 and N and diff the traces.
# (development aid; scratch files under /tmp are removed at the end)
export GOFLAGS=-mod=mod GOPROXY=off GOSUMDB=off GOTOOLCHAIN=local
P=$1; N=${2:-800}; G=${3:-16}
D=$(mktemp -d /tmp/hunt.XXXX); trap 'rm -rf $D' EXIT
(cd /verif/sim && go1.26.8 test -c -tags verif -o $D/dsim.test .) || exit 2
cd $D
run() { VERIF_ROLE=worker GOMAXPROCS=$1 GODEBUG=asyncpreemptoff=1 VERIF_PROP=$P VERIF_SEED=${SEED:-777} VERIF_BUDGET_MS=600000 VERIF_NOSWEEP=1 VERIF_NOSHRINK=1 VERIF_OUT=$2 "${@:3}" ./dsim.test -test.run '^TestWorker$'; }
VERIF_MAXRUNS=$N VERIF_RUNHASHES=1 run 1 w1.json env >/dev/null 2>&1
idx=""
for it in $(seq 1 12); do
  VERIF_MAXRUNS=$N VERIF_RUNHASHES=1 run $G wN.json env >/dev/null 2>&1
  idx=$(python3 -c "
import json
a=json.load(open('w1.json'))['run_hashes'];b=json.load(open('wN.json'))['run_hashes']
d=[i for i in range(min(len(a),len(b))) if a[i]!=b[i]]
print(d[0] if d else '')")
  [ -n "$idx" ] && break
done
echo "idx=$idx"
[ -z "$idx" ] && exit 0
VERIF_START=$idx VERIF_MAXRUNS=1 VERIF_DUMPTRACE=$idx run 1 x.json env 2>&1 | grep -v "^PASS\|^ok" > t1.txt
for k in $(seq 1 100); do
  VERIF_START=$idx VERIF_MAXRUNS=1 VERIF_DUMPTRACE=$idx run $G x.json env 2>&1 | grep -v "^PASS\|^ok" > tN.txt
  if ! diff -q t1.txt tN.txt >/dev/null; then echo "iteration $k"; diff -U${CTX:-15} t1.txt tN.txt | cut -c1-260 | head -${LINES_MAX:-80}; exit 0; fi
done
echo "no trace difference alone (hash differs only in batch)"
