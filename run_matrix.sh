#!/bin/bash
# run_matrix.sh [tier] [budget_s] [filter] — run each seeded change under /verif/seeded against the check of its property,
# in a scratch clone of /repo (HEAD), and record what detected it in meta.json. Not a registered command.
TIER="${1:-quick}"; BUD="${2:-}"; FILTER="${3:-}"
cd "$(dirname "$0")" || exit 2
ROOT="$(pwd)"
SCR=$(mktemp -d /tmp/matrix.XXXXXX)
git clone -q /repo "$SCR/repo" || exit 2
for d in seeded/*${FILTER}*/; do
  id=$(basename "$d"); prop=${id%%-*}
  [ -f "$d/patch.diff" ] || continue
  python3 -c "import json,sys;sys.exit(1 if json.load(open('$ROOT/$d/meta.json')).get('retired') else 0)" || { echo "$id RETIRED (see meta.json)"; continue; }
  ( cd "$SCR/repo" && git checkout -q -- . && git apply "$ROOT/$d/patch.diff" ) || { echo "$id APPLY-FAILED"; continue; }
  props="$prop $(python3 -c "import json;print(' '.join(json.load(open('$ROOT/$d/meta.json')).get('also_run',[])))" 2>/dev/null)"
  for p in $props; do
    t0=$(date +%s)
    out=$(VERIF_REPO="$SCR/repo" VERIF_BUDGET_S="$BUD" VERIF_NO_EVIDENCE=1 ./check "$p" "$TIER" 2>&1); rc=$?
    t1=$(date +%s)
    sigs=$(echo "$out" | grep "signature:" | sed 's/.*signature: //' | tr '\n' ' ')
    echo "$id check=$p tier=$TIER rc=$rc wall=$((t1-t0))s sigs=[$sigs]"
    python3 - "$d/meta.json" "$p" "$TIER" "$rc" "$((t1-t0))" "$sigs" <<'PY'
import json,sys
f,p,tier,rc,wall,sigs=sys.argv[1:7]
m=json.load(open(f))
db=[x for x in m.get("detected_by",[]) if not (x["check"]==p and x["tier"]==tier)]
db.append({"check":p,"tier":tier,"exit":int(rc),"detected":rc=="1","wall_s":int(wall),"signatures":sigs.split()})
m["detected_by"]=db
json.dump(m,open(f,"w"),indent=1)
PY
  done
done
rm -rf "$SCR"
