#!/bin/bash
# run_sens.sh [budget_s] [filter] — hand-written sensitivity changes (/verif/sensitivity/*.diff) vs the check of their property,
# in a scratch clone of /repo. Writes /verif/sensitivity/RESULTS.txt. Not a registered command.
BUD="${1:-8}"; FILTER="${2:-}"
cd "$(dirname "$0")" || exit 2
ROOT="$(pwd)"
SCR=$(mktemp -d /tmp/sens.XXXXXX)
git clone -q /repo "$SCR/repo" || exit 2
for f in sensitivity/*${FILTER}*.diff; do
  name=$(basename "$f" .diff); prop=${name%%__*}
  ( cd "$SCR/repo" && git checkout -q -- . && git apply "$ROOT/$f" ) || { echo "$name APPLY-FAILED"; continue; }
  t0=$(date +%s)
  out=$(VERIF_REPO="$SCR/repo" VERIF_BUDGET_S="$BUD" VERIF_NO_EVIDENCE=1 ./check "$prop" quick 2>&1); rc=$?
  t1=$(date +%s)
  sigs=$(echo "$out" | grep "signature:" | sed 's/.*signature: //' | tr '\n' ' ')
  echo "$name rc=$rc wall=$((t1-t0))s sigs=[$sigs]"
done | tee sensitivity/RESULTS${FILTER:+.$FILTER}.txt
rm -rf "$SCR"
