#!/bin/bash
# reconf.sh <PROP-mN>: re-confirm a (re-based) seeded change against /repo HEAD (dev aid)
id=$1; P=${id%%-*}; m=${id##*-}
W=/tmp/reconf/$id; mkdir -p /tmp/reconf
git -C /repo worktree add -q --detach $W HEAD || exit 2
mkdir -p $W/MUTANTS
cp /verif/seeded/$id/patch.diff $W/MUTANTS/$m.diff
cp /verif/seeded/$id/${m}_demo* $W/MUTANTS/ 2>/dev/null
cp /verif/seeded/$id/meta.json /tmp/reconf/$id.meta.old
cd /verif && ./confirm_mut.py $P $m --src $W 2>&1 | tail -2 | cut -c1-300
python3 - $id <<'PY'
import json,sys
id=sys.argv[1]
old=json.load(open('/tmp/reconf/%s.meta.old'%id)); new=json.load(open('/verif/seeded/%s/meta.json'%id))
for k in ('also_run','what_it_needs_to_manifest_and_mechanism','detected_by','retired','demo_on_current_tree'):
    if k in old: new[k]=old[k]
new['note']=(old.get('note','')+' | ' if old.get('note') else '')+'patch re-based onto the tree with a later fix: commit (resolution keeps the fix), then re-confirmed'
json.dump(new,open('/verif/seeded/%s/meta.json'%id,'w'),indent=1)
PY
git -C /repo worktree remove --force $W; git -C /repo worktree prune
