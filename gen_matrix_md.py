#!/usr/bin/env python3
# Rewrites the detection matrix in DESIGN.md (between the MATRIX markers) from seeded/*/meta.json and sensitivity/RESULTS.txt
import json,glob,re,os
rows=[]
for d in sorted(glob.glob('/verif/seeded/*/')):
    m=json.load(open(d+'meta.json'))
    name=os.path.basename(d.rstrip('/'))
    sec=m.get('what_it_needs_to_manifest_and_mechanism','').strip().split('\n')
    title=sec[0].lstrip('#').strip() if sec and sec[0] else ''
    title=re.sub(r'^\**m\d\**\s*[—:-]*\s*','',title).strip('* ')[:110]
    det=[]
    for x in m.get('detected_by',[]):
        if x.get('detected'):
            det.append("%s (%ds): %s"%(x['check'],x['wall_s'],', '.join(s.split('/',1)[1] if '/' in s else s for s in x['signatures'][:3])))
    if m.get('retired'):
        rows.append((name,title,'retired: '+m.get('note','')[:160]+' …'))
        continue
    rows.append((name,title,'; '.join(det) if det else '**not detected**'))
out=["| seeded change | what it does (author's title) | detected by (quick tier, wall time): signatures |","|---|---|---|"]
for r in rows: out.append("| %s | %s | %s |"%r)
out.append("")
out.append("Hand-written changes (`/verif/sensitivity/<property>__<name>.diff`):")
out.append("")
out.append("| change | result |")
out.append("|---|---|")
if os.path.exists('/verif/sensitivity/RESULTS.txt'):
    for l in open('/verif/sensitivity/RESULTS.txt'):
        mm=re.match(r'(\S+) rc=(\d+) wall=(\d+)s sigs=\[(.*)\]',l.strip())
        if not mm: continue
        name,rc,wall,sigs=mm.groups()
        s=sigs.split()
        res=("detected (%ss): %s"%(wall,', '.join(x.split('/',1)[1] if '/' in x else x for x in s[:3]))) if rc=='1' else ("**not detected** (see below)" if rc=='0' else "harness error")
        out.append("| %s | %s |"%(name.replace('__',' / '),res))
nd=sum(1 for r in rows if 'not detected' in r[2])
nr=sum(1 for r in rows if r[2].startswith('retired'))
out.insert(0,"%d of %d active sub-agent changes (%d retired) are detected by the quick check of their own property or (where noted) of a neighbouring one.\n"%(len(rows)-nd-nr,len(rows)-nr,nr))
txt="<!-- MATRIX-BEGIN -->\n"+"\n".join(out)+"\n<!-- MATRIX-END -->"
d=open('/verif/DESIGN.md').read()
if '@@MATRIX@@' in d: d=d.replace('@@MATRIX@@',txt)
else: d=re.sub(r'<!-- MATRIX-BEGIN -->.*?<!-- MATRIX-END -->',lambda _:txt,d,flags=re.S)
open('/verif/DESIGN.md','w').write(d)
print("rows",len(rows),"not detected",nd)
