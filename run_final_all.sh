#!/bin/bash
# run_final_all.sh — the whole validation protocol in one go (meant for `vp run`): seeded-change matrix,
# hand-written changes, benign changes against all checks, thorough tier of every check, three more batch seeds.
cd "$(dirname "$0")" || exit 2
./run_matrix.sh quick 10
./run_sens.sh
: > benign/RESULTS.txt
for g in A B C D E F G H I J K L M N; do ./run_benign.sh $g 6; done
./run_thorough_all.sh
SEEDS="7 8 9" ./run_seeds_all.sh
echo FINAL-RUN-DONE
