#!/bin/bash
# Offline setup: warm the build cache by compiling the simulator once.
cd "$(dirname "$0")" || exit 1
export GOFLAGS=-mod=mod GOPROXY=off GOSUMDB=off GOTOOLCHAIN=local
mkdir -p .build evidence
GO=go1.26.8; command -v $GO >/dev/null 2>&1 || GO=/opt/veriftools/go1.26.8/bin/go
( cd sim && cp /repo/go.sum go.sum && $GO test -c -tags verif -o ../.build/warm.test . ) || exit 1
rm -f .build/warm.test
echo setup ok
