#!/usr/bin/env python3
# Regenerates MANIFEST.json from the table below (kept in one place so it stays valid).
import json
claimed = {
 "C05": ("exploration", "6 C05", "Seeded search over message sequences, end conditions and fragmentations of real ReadMessage / conn.serve against a reference framer, plus an enumerated sweep of every split point, truncation offset and declared length 0..19 on short streams; sampling, not proof."),
 "C06": ("exploration", "6 C06", "Seeded histories of later reads (same/other connection, other goroutine, both sides of the 1 KiB pooled buffer), writes and forced GCs after a handler retained a message; every retained message is re-fingerprinted after every step. Sampling of histories with deterministic pool reuse."),
 "C07": ("exploration", "6 C07", "Seeded interleavings of 1-6 writer tasks on one real connection with mid-write stalls and write errors decided by the engine, checked against the recorded byte stream (whole, exactly once, per-writer and real-time order); retry half against scripted (accepted, error) outcome sequences and a small reference model, also through a real Conn."),
 "C08": ("exploration", "6 C08", "Seeded schedules of connects, fragment deliveries, handler releases and yield-point releases over Server.Serve with parked handlers; ENTER/EXIT history oracle per connection and a progress invariant at every quiescent point; an enumerated sweep of all 4 480 small schedules (2 connections x 2 messages x parked-handler choices); state-machine and Client variants where the library's own handlers block."),
 "C09": ("exploration", "6 C09", "Seeded registration tables, re-registrations and message mixes on live concurrently served connections, compared with a reference decision table, plus an enumerated sweep of every subset of the registrations that can compete for a message (2 688 tables x messages); the decision is input/config-quantified, the simulation supplies the live observation."),
 "C10": ("exploration", "6 C10", "Seeded peer histories (CERs of every kind, retransmissions, DWRs, application requests/answers, CEA write faults) against a state machine with name/index/catch-all registrations and refused built-in keys, judged by a reference gate; client side through scripted servers that pipeline application messages around the CEA, and one Client holding two connections at once; thorough enumerates all server histories up to length 4 over 9 item kinds."),
 "C11": ("fault_enumeration", "6 C11", "Enumerated sweep of every presence combination x every application-entry sequence up to length 2 (quick) / 3 (thorough) over 24 entry variants, plus seeded random CERs with CEA write faults and IPv4/IPv6/loopback endpoints; an independent acceptance predicate over the generated spec and an application table parsed from the dictionary XML decides CEA, metadata and close."),
 "C12": ("exploration", "6 C12", "Seeded client configurations and peer scripts on the fake clock (answer the k-th CER with one of 14 CEA kinds at instants around each retransmit deadline incl. +-1 ns, silence, disconnects, stalled CER writes, extra CEAs after success); timeline reference model for count, spacing, outcome, transport state and post-handshake dispatch."),
 "C13": ("exploration", "6 C13", "Seeded per-cycle answer plans (ack early/late, only the j-th retransmission, failure code, surplus answers, silence) for up to 22 watchdog cycles on the fake clock; a reference timeline computed from observed DWR and DWA instants gives expected retransmissions and the close instant; answering half on server- and client-role state machines."),
 "C14": ("exploration", "6 C14", "Seeded orderings of CloseNotify requests (handler / other goroutine / blocked reader / after termination), fragment deliveries, four termination kinds, local closes and releases at five tagged yield points; closed-iff-terminated invariant each step, all-channels-closed, message-history and goroutine-leak oracles; thorough enumerates all event-kind sequences up to length 6; watchdog-client variant on the fake clock."),
 "C15": ("exploration", "6 C15", "Seeded placement of handler panics, ten kinds of undecodable input, resets, temporary accept errors and a TLS peer stalled in its handshake among 3-5 concurrent connections (explicit mux or nil Handler) plus runtime registrations and a late connection; isolation, close, error-report and liveness oracles."),
 "C16": ("exploration", "6 C16", "Seeded request headers (boundary identifiers incl. 0, all flag bytes, result codes, streams 0-15) answered through Message.Answer on live TCP-like and SCTP connections (also deferred answers and retried writes) and by the state machine (CEA, DWA); answers parsed by the reference codec and compared field by field, stream by stream."),
 "C19": ("exploration", "6 C19", "Seeded chunkings and interleavings of 1-6 streams fed to the in-memory association under the library's own reader loop; per-stream byte-for-byte sequence equality, completeness and reply-stream oracles; thorough enumerates all 1680 interleavings of 3x3 chunks for 64 split patterns."),
}
technique = "deterministic simulation with fault injection (seeded schedule/fault search over real code behind in-memory transports and a fake clock; history oracles against small reference models)"
na = {
 "C01": "pure function of (message, dictionary): no stream, clock, goroutine, fault or interleaving in the statement or quantifier; a simulator would only relabel input generation (property-based/differential testing decides it)",
 "C02": "pure function of values and of a single-threaded build history (NewAVP/AddAVP/InsertAVP/Marshal); nothing for a scheduler or fault injector to decide",
 "C03": "input-space search over byte strings (fuzzing), no schedule/time/fault dimension; its connection-facing facets (bad declared length, malformed input on a live connection) are simulated under C05 and C15",
 "C04": "pure function of the body bytes; no concurrency, time or I/O for a simulation to control",
 "C17": "pure function of dictionary content and sequential load order",
 "C18": "pure function of struct values (Marshal/Unmarshal), single-threaded",
 "C20": "pure function of the AVP tree and the query",
}
checks = []
for pid in sorted(claimed):
    lvl, ref, text = claimed[pid]
    checks.append({
        "property_id": pid,
        "quick_cmd": "./check %s quick" % pid,
        "thorough_cmd": "./check %s thorough" % pid,
        "evidence_file": "/verif/evidence/%s.json" % pid,
        "replay_cmd_template": "./check %s --replay {path}" % pid,
        "engine": "dsim",
        "level_claimed": {"category": lvl, "text": text, "design_ref": "DESIGN.md section " + ref},
        "level_note": "Trusted: the harness (engine, in-memory transports, reference framer/encoder and models in /verif/sim), Go 1.26.8 testing/synctest for the fake clock, and that scheduling matters only at transport seams, handler boundaries and the tagged yield points. Real go-diameter code runs unmodified apart from the verif-tagged hooks.",
        "technique": technique,
    })
m = {
 "version": 1,
 "setup_cmd": "./setup.sh",
 "hooks": {
   "guard": "verif (Go build tag)",
   "enable": "go1.26.8 test -c -tags verif (the harness module /verif/sim replaces github.com/fiorix/go-diameter/v4 with /repo)",
   "baseline_off_cmd": "/verif/baseline_off.sh",
   "source_commits": ["4847e4d", "e138ec1", "10f079b"],
   "add_only": True,
 },
 "engines": [{"name": "dsim", "path": "/verif/sim", "serves_properties": sorted(claimed), "kind_free_text": "deterministic simulator: seeded choice tape, in-memory net.Conn/net.Listener/SCTP backend, synctest fake clock, scripted peers, history oracles, tape shrinking and replay"}],
 "checks": checks,
 "not_applicable": [{"property_id": k, "reason": v} for k, v in sorted(na.items())],
 "notes": "All checks: exit 0 = held on everything explored (KNOWN-FINDING lines possible), 1 = VIOLATION property=<id> replay=<path>, 2 = build/harness trouble. VERIF_SEED selects the batch seed. See DESIGN.md.",
}
json.dump(m, open("/verif/MANIFEST.json", "w"), indent=1)
print("claimed:", sorted(claimed))
