#!/bin/bash
# run_mini.sh "<props>" — the validation protocol restricted to some checks (after a late change to them)
cd "$(dirname "$0")" || exit 2
export PROPS="$1"
for p in $PROPS; do ./run_matrix.sh quick 10 "$p-"; done
: > benign/RESULTS.mini.txt
for g in A B C D E F G H I J K L M N; do ./run_benign.sh $g 6; done
./run_thorough_all.sh
SEEDS="${SEEDS:-7 8 9}" ./run_seeds_all.sh
echo MINI-RUN-DONE
