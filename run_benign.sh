#!/bin/bash
# run_benign.sh <group> [budget_s] — behaviour-preserving changes written by sub-agents (copied to /verif/benign/<G>-bN.diff)
# against ALL checks, in a scratch clone of /repo. Any VIOLATION is a false alarm of the machinery. Not a registered command.
G="$1"; BUD="${2:-6}"
cd "$(dirname "$0")" || exit 2
ROOT="$(pwd)"
mkdir -p benign
SRC="${BEN_SRC:-/tmp/ben}"
if [ -d $SRC/$G/BENIGN ]; then
  for f in $SRC/$G/BENIGN/b*.diff; do cp "$f" benign/$G-$(basename "$f"); done
  cp $SRC/$G/BENIGN/README.md benign/$G-README.md 2>/dev/null
fi
SCR=$(mktemp -d /tmp/benign.XXXXXX)
git clone -q /repo "$SCR/repo" || exit 2
for f in benign/$G-b*.diff; do
  name=$(basename "$f" .diff)
  ( cd "$SCR/repo" && git checkout -q -- . && git clean -fdq && git apply "$ROOT/$f" ) || { echo "$name APPLY-FAILED" | tee -a benign/RESULTS.txt; continue; }
  ( cd "$SCR/repo" && export GOFLAGS=-mod=mod GOPROXY=off GOSUMDB=off && go build ./... ) || { echo "$name BUILD-FAILED" | tee -a benign/RESULTS.txt; continue; }
  line="$name:"
  for p in ${PROPS:-C05 C06 C07 C08 C09 C10 C11 C12 C13 C14 C15 C16 C19}; do
    out=$(VERIF_REPO="$SCR/repo" VERIF_BUDGET_S="$BUD" VERIF_NO_EVIDENCE=1 ./check "$p" quick 2>&1); rc=$?
    if [ $rc -ne 0 ]; then
      sigs=$(echo "$out" | grep "signature:\|HARNESS" | sed 's/.*signature: //' | cut -c1-120 | tr '\n' ' ')
      line="$line $p=rc$rc[$sigs]"
    fi
  done
  [ "$line" = "$name:" ] && line="$name: all ${PROPS:+of $PROPS }13 checks quiet"
  echo "$line" | tee -a benign/RESULTS.txt
done
rm -rf "$SCR"
