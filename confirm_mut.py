#!/usr/bin/env python3
"""confirm_mut.py <PROP> <mN> [--src /tmp/mut/PROP]  — confirm a seeded change in a scratch worktree and file it under /verif/seeded/.
Checks: clean tree -> demo passes; apply diff -> builds, pinned suite (140 stable tests) still passes, demo fails; revert."""
import sys, os, re, json, subprocess, shutil, glob
prop, m = sys.argv[1], sys.argv[2]
src = "/tmp/mut/%s" % prop
if "--src" in sys.argv: src = sys.argv[sys.argv.index("--src")+1]
mdir = src + "/MUTANTS"
env = dict(os.environ, GOFLAGS="-mod=mod", GOPROXY="off", GOSUMDB="off")
def sh(cmd, cwd=src, timeout=600):
    p = subprocess.run(cmd, shell=True, cwd=cwd, env=env, capture_output=True, text=True, timeout=timeout)
    return p.returncode, p.stdout + p.stderr
def clean():
    sh("git checkout -- . && git clean -fdq -e MUTANTS")
clean()
diff = "%s/%s.diff" % (mdir, m)
demos = [f for f in glob.glob("%s/%s_demo*" % (mdir, m)) if f.endswith(".go")]
assert os.path.exists(diff) and demos, (diff, demos)
demos.sort(key=len)
demo = demos[0]
txt = "\n".join(open(d).read() for d in demos)
pkg = re.search(r"^package (\w+)", txt, re.M).group(1)
target = {"diam_test": "diam", "diam": "diam", "sm_test": "diam/sm", "sm": "diam/sm", "smparser_test": "diam/sm/smparser", "datatype_test": "diam/datatype"}.get(pkg, "diam/sm/" + pkg)
tests = re.findall(r"^func (Test\w+)\(", txt, re.M)
os.makedirs(os.path.join(src, target), exist_ok=True)
dsts = [os.path.join(src, target, os.path.basename(d)) for d in demos]
runre = "^(" + "|".join(tests) + ")$"
democmd = "go test -tags verif -vet=off -count=1 -timeout 120s ./%s/ -run '%s'" % (target, runre)
def pinned():
    rc, out = sh("go test -mod=mod -json -vet=off -count=1 -timeout 25m ./... 2>/dev/null")
    passed = set()
    for l in out.splitlines():
        try: e = json.loads(l)
        except Exception: continue
        if e.get("Action") == "pass" and e.get("Test"): passed.add(e["Package"] + "::" + e["Test"])
    base = set(json.load(open("/root/.vp/BASELINE.json"))["stable_pass"])
    return sorted(base - passed)
res = {}
[shutil.copy(d, x) for d, x in zip(demos, dsts)]
rc, out = sh(democmd); res["demo_on_clean_tree"] = "pass" if rc == 0 else "FAIL"
clean_out = out[-400:]
[os.remove(x) for x in dsts]
rc, out = sh("git apply %s" % diff); assert rc == 0, out
rc, out = sh("go build ./... && go build -tags verif ./diam/..."); res["build_with_change"] = "ok" if rc == 0 else "FAIL: " + out[-300:]
missing = pinned(); res["pinned_suite_with_change"] = "140/140 pass" if not missing else "MISSING %d: %s" % (len(missing), missing[:3])
[shutil.copy(d, x) for d, x in zip(demos, dsts)]
rc, out = sh(democmd); res["demo_with_change"] = "fail (as intended)" if rc != 0 else "PASSES (change not demonstrated)"
mut_out = out[-600:]
[os.remove(x) for x in dsts]
clean()
ok = res["demo_on_clean_tree"] == "pass" and res["build_with_change"] == "ok" and not missing and rc != 0
print(prop, m, json.dumps(res))
if not ok:
    print("NOT CONFIRMED"); print(clean_out); print(mut_out); sys.exit(1)
out = "/verif/seeded/%s-%s" % (prop, m)
os.makedirs(out, exist_ok=True)
shutil.copy(diff, out + "/patch.diff")
[shutil.copy(d, out + "/" + os.path.basename(d)) for d in demos]
readme = open(mdir + "/README.md").read() if os.path.exists(mdir + "/README.md") else ""
sec = ""
mm = re.search(r"(?ms)^#+[^\n]*\b%s\b.*?(?=^#+[^\n]*\bm[0-9]\b|\Z)" % m, readme)
if mm: sec = mm.group(0).strip()[:3000]
meta = {"property": prop, "origin": "independent sub-agent given only the property text and a scratch worktree of /repo (at the commit with the fix: commits)",
        "demo": {"file": os.path.basename(demo), "place_in": target, "command": democmd},
        "what_it_needs_to_manifest_and_mechanism": sec,
        "confirmed_by_me": res,
        "detected_by": []}
if os.path.exists(out + "/meta.json"):
    old = json.load(open(out + "/meta.json")); meta["detected_by"] = old.get("detected_by", [])
json.dump(meta, open(out + "/meta.json", "w"), indent=1)
print("CONFIRMED ->", out)
