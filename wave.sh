#!/bin/bash
# wave.sh <srcroot> <PROP> <mA> <mB> — confirm two sub-agent changes and run them against the property's check (dev aid)
SRC=$1; P=$2; shift 2
cd /verif
for m in "$@"; do
  ./confirm_mut.py $P $m --src $SRC/$P 2>&1 | tail -3 | cut -c1-400
done
for m in "$@"; do
  [ -d seeded/$P-$m ] && ./run_matrix.sh quick 10 "$P-$m" 2>&1 | cut -c1-300
done
