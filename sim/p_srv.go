package dsim

import (
	"fmt"
	"io"
	"net"
	"sort"
	"strings"
	"sync"

	"github.com/fiorix/go-diameter/v4/diam"
	"github.com/fiorix/go-diameter/v4/diam/datatype"
)

// C08, C09, C15, C16 (TCP-like half): scenarios over the server world.

var srvReal = []string{"diam.Server.Serve accept loop", "conn.serve, bufio.Reader, liveSwitchReader, response.Write", "ServeMux dispatch", "diam.NewConn (dialled connections)", "Message.Answer / WriteTo", "ReadMessage and both buffer pools"}
var srvStub = []string{"transport: SimConn / SimListener (in-memory)", "peers: scripted, driven inline by the engine with the reference encoder/framer", "handlers: instrumented harness code parked and released by the engine", "clock: testing/synctest"}

func init() {
	register(&Property{
		ID: "C08", Level: "exploration",
		Rule: "each run draws 2-4 served (+0-1 dialled) connections with 1-6 marked messages each, which handlers park, and then a schedule of {connect, deliver k bytes of a connection, release a parked handler, release a serve loop held at a yield point}; " +
			"non-trivial = the engine had at least one step with two or more enabled actions; distinct = hash of the action-kind sequence",
		Real: append(append([]string{}, srvReal...), "sm.StateMachine (CER/CEA, DWR/DWA handlers) and sm.Client with its watchdog, in the state-machine and Client scenarios", "SCTPConn reader/writer in the association scenario"), Stubbed: srvStub,
		Assume: []string{"interleaving is explored at transport seams, handler entry/exit and the tagged yield points only"},
		Scenarios: []*Scenario{
			{Name: "serve", Weight: 6, Bubble: true, Run: func(e *Env) {
				t := e.T
				cfg := srvCfg{prop: "C08", nConns: t.Range(2, 4), nDialled: t.Draw(2), msgsPer: [2]int{1, 6}, parkPct: 60, answerPct: 30, bigMsgs: true, doubleConn: true, deferPct: 20}
				newSrvWorld(e, cfg).run()
			}},
			{Name: "serve-stalled-peers", Weight: 2, Bubble: true, Run: func(e *Env) {
				// peers that stop reading (answers stall in the transport), connections that
				// die with unread input, and a connection opened afterwards
				t := e.T
				cfg := srvCfg{prop: "C08", nConns: t.Range(3, 5), nDialled: t.Draw(2), msgsPer: [2]int{1, 4}, parkPct: 20, answerPct: 90, bigMsgs: true,
					stallPct: 45, malformed: t.Chance(1, 2), lateConn: true}
				if t.Chance(1, 2) {
					// many peers stop reading large answers at the same time
					cfg = srvCfg{prop: "C08", nConns: 5, nDialled: 1, msgsPer: [2]int{1, 3}, parkPct: 0, answerPct: 100, stallPct: 75, largePct: 75, lazyResume: true}
					e.Act("many-stalled-large-answers", "")
				}
				newSrvWorld(e, cfg).run()
			}},
			{Name: "sctp-association", Weight: 1, Bubble: true, Run: func(e *Env) { c19RunX(e, false, nil, true) }},
			// the library's own handlers block too: a state machine whose CEA write is stuck on one
			// connection (and whose handshake notifications nobody collects) must go on serving the other
			{Name: "state-machine-stalled-cea", Weight: 1, Bubble: true, Run: func(e *Env) { smaRun(e, "C08") }},
			{Name: "client-two-connections-blocked-handler", Weight: 1, Bubble: true, Run: c08ClientTwo},
			{Name: "handler-closes-and-lingers", Weight: 1, Bubble: true, Run: c08CloseLingers},
			{Name: "registration-while-a-handler-blocks", Weight: 1, Bubble: true, Run: c08PendingRegistration},
			{Name: "handler-blocked-forwarding-to-another-connection", Weight: 1, Bubble: true, Run: c08Forward},
			{Name: "handler-blocked-forwarding-to-an-association", Weight: 1, Bubble: true, Run: c08ForwardSctp},
			{Name: "sweep-schedules", Bubble: true, Run: c08Sweep, SweepN: c08SweepN, QuickSweep: true, Exhaustive: true,
				SweepNote: "2 connections x 2 messages: every interleaving of the two connections' step sequences (deliver, deliver, release, release in both per-connection orders; 70 x 4) x every choice of which of the 4 handlers park (16): 4 480 schedules, each followed by the drain and the history oracle"},
			{Name: "serve-yield", Weight: 3, Bubble: true, Run: func(e *Env) {
				t := e.T
				cfg := srvCfg{prop: "C08", nConns: t.Range(2, 3), nDialled: t.Draw(2), msgsPer: [2]int{1, 5}, parkPct: 50, answerPct: 30, yields: true, cnTasks: true}
				newSrvWorld(e, cfg).run()
			}},
		},
		MustProbes: []string{"yield-parked", "closenotify-from-task", "back-to-back-accept", "deferred-answer", "sctp-handler-parked", "answer-write-stalled", "late-connection", "other-connection-served-during-stalled-cea", "second-connection-served-while-first-handler-blocked", "connection-accepted-while-closer-lingers", "handler-stuck-in-a-write-to-another-connection"},
	})
	register(&Property{
		ID: "C09", Level: "exploration",
		Rule: "each run draws a registration table (index / short name+R|A / ALL by name or by index, for the messages' own keys and for neighbouring keys), re-registrations between messages, and messages over base and application commands incl. applications that fall back to the base dictionary; " +
			"non-trivial = at least two registrations or one re-registration; distinct = hash of the registration and action-kind sequence",
		Real: srvReal, Stubbed: srvStub,
		Assume: []string{"the decision itself does not depend on the schedule; it is observed on live, concurrently served connections", "short names come from the harness-authored dictionary"},
		Scenarios: []*Scenario{
			{Name: "table", Weight: 1, Bubble: true, Run: func(e *Env) {
				t := e.T
				cfg := srvCfg{prop: "C09", nConns: t.Range(1, 3), nDialled: t.Draw(2), msgsPer: [2]int{2, 8}, parkPct: 20, answerPct: 20, table: true, rereg: true}
				if t.Chance(1, 3) {
					// messages whose command exists in no dictionary the message's application can use
					// (unknown code; a code of another application, also of a "parent" one): nobody handles them
					cfg.malformed, cfg.malformedOnly = true, []int{3, 9}
				}
				newSrvWorld(e, cfg).run()
			}},
			{Name: "sweep-tables", Bubble: true, Run: c09Sweep, SweepN: c09SweepN, QuickSweep: true, Exhaustive: true,
				SweepNote: "7 target messages (base command, application-specific command, request and answer, application ids that fall back to the base dictionary incl. the relay id and ids with a parent application) x every subset of the 7 registrations that could compete for the message (own index, other R bit, neighbouring application, neighbouring code, short name with the right suffix, with the wrong suffix, another short name) x catch-all absent / by name / by index: 2 688 cases"},
		},
		MustProbes: []string{"re-registration", "unhandled-message"},
	})
	register(&Property{
		ID: "C15", Level: "exploration",
		Rule: "each run draws 3-4 connections with request/answer workloads and places faults {handler panic, malformed message of 7 kinds with trailing data, reset mid-message, temporary accept errors} at drawn positions, plus a connection opened after all faults; " +
			"non-trivial = at least one fault fired; distinct = hash of the action/fault-kind sequence",
		Real: srvReal, Stubbed: srvStub,
		Assume: []string{"2 s of fake time per temporary accept error is the liveness bound for the accept back-off"},
		Scenarios: []*Scenario{
			{Name: "faults", Weight: 4, Bubble: true, Run: func(e *Env) {
				t := e.T
				cfg := srvCfg{prop: "C15", nConns: t.Range(3, 4), msgsPer: [2]int{1, 5}, parkPct: 25, answerPct: 100,
					panicPct: 1, malformed: true, rst: true, acceptErrs: true, lateConn: true, extraReg: true,
					nilHandler: t.Chance(1, 4), tlsStall: t.Chance(1, 4), idxRegs: t.Chance(1, 3), cnTasks: t.Chance(1, 3)}
				newSrvWorld(e, cfg).run()
			}},
			{Name: "sctp-faults", Weight: 1, Bubble: true, Run: c15Sctp},
			{Name: "fault-while-a-write-is-stuck", Weight: 1, Bubble: true, Run: c15StuckWrite},
			{Name: "sweep-placement", Bubble: true, Run: c15Sweep, SweepN: c15SweepN, QuickSweep: true, Exhaustive: true,
				SweepNote: "3 connections x 3 requests; one fault of each of 13 kinds (handler panic, reset mid-message, 11 kinds of undecodable message) at every (connection, position), with 0 or 3 temporary accept errors first; the delivery/release schedule of each case is seeded: 312 cases"},
		},
		MustProbes: []string{"late-connection", "malformed-reported", "recovered-panic-logged", "runtime-registration", "sctp-read-error", "long-accept-error-run", "default-serve-mux", "tls-handshake-stalled", "fault-with-stuck-write"},
	})
}

func c16Tcp(e *Env) {
	t := e.T
	cfg := srvCfg{prop: "C16", nConns: t.Range(1, 2), nDialled: t.Draw(2), msgsPer: [2]int{1, 6}, parkPct: 15, answerPct: 100, wideHdr: true, deferPct: 35,
		bareDict: t.Chance(1, 3)}
	newSrvWorld(e, cfg).run()
}

func c15SweepN(thorough bool) int { return 3 * 4 * 13 * 2 }

func c15Sweep(e *Env) {
	k := e.Case
	f := &srvForce{}
	f.conn = k % 3
	k /= 3
	f.pos = k % 4
	k /= 4
	kind := k % 13
	k /= 13
	f.acceptErrs = k * 3
	switch {
	case kind == 0:
		f.kind = "panic"
		if f.pos > 2 {
			f.pos = 2
		}
	case kind == 1:
		f.kind = "rst-mid"
	default:
		f.kind, f.malformed = "malformed", kind-2
	}
	e.NonTrivial()
	cfg := srvCfg{prop: "C15", nConns: 3, msgsPer: [2]int{3, 3}, parkPct: 25, answerPct: 100,
		panicPct: 1, malformed: true, rst: true, acceptErrs: true, lateConn: true, extraReg: true, force: f}
	newSrvWorld(e, cfg).run()
}

var c16SweepRC = []uint32{0, 2001, 3004, 5012, 0xffffffff}

func c16SweepN(thorough bool) int { return 4 * 4 * 128 * len(c16SweepRC) }

func c16Sweep(e *Env) {
	k := e.Case
	h := &hdrForce{}
	h.hbh = c16IDs[k%4]
	k /= 4
	h.e2e = c16IDs[k%4]
	k /= 4
	h.flags = 0x80 | byte(k%128)
	k /= 128
	h.rc = c16SweepRC[k]
	e.NonTrivial()
	cfg := srvCfg{prop: "C16", nConns: 1, msgsPer: [2]int{1, 1}, answerPct: 100, wideHdr: true, hdr: h}
	newSrvWorld(e, cfg).run()
}

// c09Targets are the messages of the C09 sweep: (application, code, request?).
var c09Targets = []struct {
	app, code uint32
	req       bool
}{
	{0, 900, true},          // base command, request
	{0, 901, false},         // base command, answer
	{1001, 900, true},       // the application's own command with a code the base application also has
	{1002, 910, false},      // application-specific command, answer
	{1001, 901, true},       // application falls back to the base dictionary
	{0xffffffff, 900, true}, // relay application id falls back to the base dictionary
	{16777251, 901, false},  // an application id that has a "parent" falls back to the base dictionary
}

func c09SweepN(thorough bool) int { return len(c09Targets) * 128 * 3 }

func c09Sweep(e *Env) {
	k := e.Case
	if k < 0 {
		k = e.T.Draw(c09SweepN(false)) // (run outside the sweep: a drawn case)
	}
	tg := c09Targets[k%len(c09Targets)]
	k /= len(c09Targets)
	f := &tableForce{app: tg.app, code: tg.code, req: tg.req, mask: k % 128, all: k / 128}
	e.NonTrivial()
	cfg := srvCfg{prop: "C09", nConns: 1, msgsPer: [2]int{1, 2}, parkPct: 20, answerPct: 20, table: true, tableForce: f}
	newSrvWorld(e, cfg).run()
}

// c08Interleavings: the 70 ways to merge two sequences of four steps (bit i set = step i is connection 0's).
var c08Interleavings = func() []int {
	var out []int
	for m := 0; m < 256; m++ {
		n := 0
		for b := m; b != 0; b &= b - 1 {
			n++
		}
		if n == 4 {
			out = append(out, m)
		}
	}
	return out
}()

var c08Orders = [][]byte{{'d', 'd', 'r', 'r'}, {'d', 'r', 'd', 'r'}}

func c08SweepN(thorough bool) int { return len(c08Interleavings) * 4 * 16 }

func c08Sweep(e *Env) {
	k := e.Case
	if k < 0 {
		k = e.T.Draw(c08SweepN(false))
	}
	il := c08Interleavings[k%len(c08Interleavings)]
	k /= len(c08Interleavings)
	o0, o1 := c08Orders[k%2], c08Orders[(k/2)%2]
	k /= 4
	var sched []schedTok
	i0, i1 := 0, 0
	for step := 0; step < 8; step++ {
		if il&(1<<step) != 0 {
			sched = append(sched, schedTok{0, o0[i0]})
			i0++
		} else {
			sched = append(sched, schedTok{1, o1[i1]})
			i1++
		}
	}
	e.NonTrivial()
	cfg := srvCfg{prop: "C08", nConns: 2, msgsPer: [2]int{2, 2}, sched: sched, parkMask: k % 16}
	newSrvWorld(e, cfg).run()
}

// c15StuckWrite: a message is being written to connection A from a goroutine that is not A's
// serving goroutine (a relay forwarding to A) and is stuck because A's peer does not read.
// Then A suffers a fault (undecodable input, a read error, or a panic in its handler). A must
// be closed and reported like any faulty connection, the stuck writer must get its error, and
// the listener and the other connections must go on.
func c15StuckWrite(e *Env) {
	t := e.T
	e.TrustWait = false
	lis := newSimListener(e)
	mux := diam.NewServeMux()
	var mu sync.Mutex
	conns := map[string]diam.Conn{}
	handled := map[string]int{}
	fault := []string{"undecodable", "read-error", "panic"}[t.Draw(3)]
	mux.HandleFunc("ALL", func(c diam.Conn, m *diam.Message) {
		who := "?"
		if len(m.AVP) > 0 {
			who = string(m.AVP[0].Data.Serialize())
		}
		mu.Lock()
		conns[who[:1]] = c
		handled[who]++
		mu.Unlock()
		if who == "A-boom" {
			e.Fault("handler-panic")
			panic(fmt.Errorf("sim: handler panic while a forward is pending"))
		}
		if strings.HasPrefix(who, "B") || strings.HasPrefix(who, "C") {
			a := m.Answer(2001)
			a.NewAVP(avpSimOctets, 0, 0, datatype.OctetString(who))
			a.WriteTo(c)
		}
	})
	srv := &diam.Server{Handler: mux, Dict: simDict()}
	serveRet := make(chan error, 1)
	go func() { serveRet <- srv.Serve(lis) }()
	mk := func(name string, port int) *SimConn {
		sc := newSimConn(e, name, drawAddr(t, 3868), drawAddr(t, port))
		lis.Connect(sc)
		return sc
	}
	req := func(tag string, hbh uint32) []byte {
		return RefMsg{Cmd: 900, Flags: 0x80, HbH: hbh, E2E: hbh, AVPs: []RefAVP{{Code: avpSimOctets, Data: []byte(tag)}}}.Bytes()
	}
	a, b := mk("A", 41001), mk("B", 41002)
	defer func() {
		for _, sc := range []*SimConn{a, b} {
			sc.Resume()
			sc.EndRead(io.EOF, false)
		}
		lis.Close()
		e.Quiesce()
	}()
	a.Deliver(req("A-hello", 1))
	b.Deliver(req("B-hello", 2))
	e.Quiesce()
	mu.Lock()
	ca := conns["A"]
	mu.Unlock()
	if ca == nil || len(b.Written()) == 0 {
		e.Fail("C15/message-not-dispatched", "two healthy connections: the first requests were not served")
		return
	}
	// the forward to A gets stuck in the transport
	fwd := diam.NewMessage(901, diam.RequestFlag, 0, 500, 500, simDict())
	fwd.NewAVP(avpSimOctets, 0, 0, datatype.OctetString(marker(0, 0, t.Range(10, 3000), 7)))
	a.ArmWriteFault(&WriteFault{Kind: "stall", After: t.Range(0, 40)})
	type res struct {
		n   int64
		err error
	}
	done := make(chan res, 1)
	go func() { n, err := fwd.WriteTo(ca); done <- res{n, err} }()
	e.Quiesce()
	if !a.Stalled() {
		e.Harness("the forward did not reach the transport")
	}
	e.Probe("fault-with-stuck-write")
	e.NonTrivial()
	// ... and now A fails
	switch fault {
	case "undecodable":
		bad := RefMsg{Cmd: 7777, Flags: 0x80, HbH: 9, E2E: 9, AVPs: []RefAVP{{Code: avpSimOctets, Data: []byte("A-bad")}}}
		a.Deliver(bad.Bytes())
		e.Fault("malformed:unknown-command")
	case "read-error":
		a.EndRead(errSimReset, true)
		e.Fault("rst-mid-message")
	case "panic":
		a.Deliver(req("A-boom", 3))
	}
	e.Act("fault", "%s on A while a write to A is stuck", fault)
	e.Quiesce()
	if !a.Closed() {
		e.Fail("C15/faulty-connection-not-closed", "connection A met a fault (%s) while a write to it from another goroutine was stuck in the transport: the library did not close A", fault)
		return
	}
	select {
	case r := <-done:
		if r.err == nil {
			e.Fail("C15/stuck-write-reported-success", "the transport of A was closed under a stuck write, which then reported success (n=%d)", r.n)
			return
		}
	default:
		e.Fail("C15/stuck-write-never-returned", "A was closed after its fault; the write that was stuck on it has not returned")
		return
	}
	if fault == "undecodable" {
		select {
		case <-mux.ErrorReports():
		default:
			e.Fail("C15/no-error-report/unknown-command", "undecodable input closed connection A and no ErrorReport was offered")
			return
		}
	}
	// the others go on: B is still served, a new connection is accepted and served
	before := len(b.Written())
	b.Deliver(req("B-again", 4))
	c := mk("C", 41003)
	defer func() { c.EndRead(io.EOF, false) }()
	c.Deliver(req("C-hello", 5))
	e.Quiesce()
	if len(b.Written()) == before || len(c.Written()) == 0 {
		e.Fail("C15/message-not-dispatched", "after the fault on A (%s): B answered=%v, the new connection C answered=%v", fault, len(b.Written()) != before, len(c.Written()) != 0)
		return
	}
	select {
	case err := <-serveRet:
		e.Fail("C15/serve-returned", "Server.Serve returned %v while the listener was open", err)
	default:
	}
}

// c08CloseLingers: a handler closes its own connection and keeps running for a while; in that
// window further connections are accepted and served. Whatever the library recycles from the
// closed connection, the newcomers' messages are still handled one at a time, in order, by
// their own connection, and the closer's connection handles nothing more.
func c08CloseLingers(e *Env) {
	t := e.T
	e.TrustWait = false
	lis := newSimListener(e)
	mux := diam.NewServeMux()
	var mu sync.Mutex
	type ent struct {
		tag   string
		local string
	}
	var enters []ent
	active := map[string]int{} // per connection letter
	overlap := ""
	gates := map[string]chan struct{}{}
	parkTags := map[string]bool{"A0": true, "B0": t.Chance(2, 3), "C0": t.Chance(1, 2)}
	mux.HandleFunc("ALL", func(c diam.Conn, m *diam.Message) {
		tag := "?"
		if len(m.AVP) > 0 {
			tag = string(m.AVP[0].Data.Serialize())
		}
		local := ""
		if la := c.RemoteAddr(); la != nil {
			local = la.String()
		}
		mu.Lock()
		enters = append(enters, ent{tag, local})
		k := tag[:1]
		if active[k] > 0 {
			overlap = tag
		}
		active[k]++
		var gate chan struct{}
		if parkTags[tag] {
			gate = make(chan struct{})
			gates[tag] = gate
			e.ParkBegin(true)
		}
		mu.Unlock()
		if tag == "A0" {
			c.Close() // the handler gives up its connection, and is not done yet
		}
		if gate != nil {
			<-gate
		}
		mu.Lock()
		active[k]--
		mu.Unlock()
	})
	srv := &diam.Server{Handler: mux, Dict: simDict()}
	go srv.Serve(lis)
	addr := map[string]string{}
	mk := func(name string, port int) *SimConn {
		ra := &net.TCPAddr{IP: net.IPv4(10, 5, 5, byte(port%250)), Port: port}
		sc := newSimConn(e, name, drawAddr(t, 3868), ra)
		addr[name] = ra.String()
		lis.Connect(sc)
		return sc
	}
	req := func(tag string, hbh uint32) []byte {
		return RefMsg{Cmd: 900, Flags: 0x80, HbH: hbh, E2E: hbh, AVPs: []RefAVP{{Code: avpSimOctets, Data: []byte(tag)}}}.Bytes()
	}
	release := func(tag string) {
		mu.Lock()
		g := gates[tag]
		delete(gates, tag)
		mu.Unlock()
		if g != nil {
			e.ParkEnd(true)
			close(g)
			e.Quiesce()
		}
	}
	a := mk("A", 42001)
	var others []*SimConn
	defer func() {
		mu.Lock()
		var left []string
		for tg := range gates {
			left = append(left, tg)
		}
		mu.Unlock()
		sort.Strings(left)
		for _, tg := range left {
			release(tg)
		}
		for _, sc := range append([]*SimConn{a}, others...) {
			sc.EndRead(io.EOF, false)
		}
		lis.Close()
		e.Quiesce()
	}()
	a.Deliver(append(req("A0", 1), req("A1", 2)...))
	e.Quiesce()
	mu.Lock()
	lingering := gates["A0"] != nil
	mu.Unlock()
	if !lingering || !a.Closed() {
		e.Harness("the closing handler did not run as planned")
	}
	// newcomers while the closer lingers
	b := mk("B", 42002)
	others = append(others, b)
	b.Deliver(append(req("B0", 3), req("B1", 4)...))
	e.Quiesce()
	var c *SimConn
	if t.Chance(1, 2) {
		c = mk("C", 42003)
		others = append(others, c)
		c.Deliver(append(req("C0", 5), req("C1", 6)...))
		e.Quiesce()
	}
	e.Probe("connection-accepted-while-closer-lingers")
	e.NonTrivial()
	check := func(when string) bool {
		mu.Lock()
		defer mu.Unlock()
		if overlap != "" {
			e.Fail("C08/overlap", "%s: the handler for %s was started while the handler for the previous message of that connection had not returned", when, overlap)
			return false
		}
		seen := map[string]int{}
		last := map[string]int{}
		for _, en := range enters {
			seen[en.tag]++
			k := en.tag[:1]
			if en.local != addr[k] {
				e.Fail("C08/wrong-connection", "%s: message %s was handed to a handler with the Conn of %s (expected %s)", when, en.tag, en.local, addr[k])
				return false
			}
			n := int(en.tag[1] - '0')
			if seen[en.tag] > 1 || n < last[k] {
				e.Fail("C08/duplicate-or-reordered", "%s: handlers saw %v", when, enters)
				return false
			}
			last[k] = n
		}
		return true
	}
	if !check("with the closing handler still running") {
		return
	}
	// the closer returns; then the parked newcomers are released in a drawn order
	order := []string{"A0", "B0", "C0"}
	for i := len(order) - 1; i > 0; i-- {
		j := t.Draw(i + 1)
		order[i], order[j] = order[j], order[i]
	}
	for _, tg := range order {
		release(tg)
		if !check("after releasing " + tg) {
			return
		}
	}
	mu.Lock()
	got := map[string]bool{}
	for _, en := range enters {
		got[en.tag] = true
	}
	mu.Unlock()
	want := []string{"B0", "B1"}
	if c != nil {
		want = append(want, "C0", "C1")
	}
	for _, tg := range want {
		if !got[tg] {
			e.Fail("C08/message-lost", "message %s of a connection accepted while another connection's handler lingered after closing was never handled (handled: %v)", tg, enters)
			return
		}
	}
}

// c08PendingRegistration: a handler blocks on connection A; meanwhile the application
// registers another handler on the same mux from a goroutine of its own (modules that start
// late; an sm.Client dialling, which registers its handlers on every dial). Messages arriving
// on connection B must be dispatched all the same.
func c08PendingRegistration(e *Env) {
	t := e.T
	e.TrustWait = false
	lis := newSimListener(e)
	mux := diam.NewServeMux()
	var mu sync.Mutex
	var entered []string
	var gate chan struct{}
	mux.HandleFunc("ALL", func(c diam.Conn, m *diam.Message) {
		tag := "?"
		if len(m.AVP) > 0 {
			tag = string(m.AVP[0].Data.Serialize())
		}
		mu.Lock()
		entered = append(entered, tag)
		var g chan struct{}
		if tag == "A0" {
			g = make(chan struct{})
			gate = g
			e.ParkBegin(true)
		}
		mu.Unlock()
		if g != nil {
			<-g
		}
	})
	srv := &diam.Server{Handler: mux, Dict: simDict()}
	go srv.Serve(lis)
	req := func(tag string, hbh uint32) []byte {
		return RefMsg{Cmd: 900, Flags: 0x80, HbH: hbh, E2E: hbh, AVPs: []RefAVP{{Code: avpSimOctets, Data: []byte(tag)}}}.Bytes()
	}
	a := newSimConn(e, "A", drawAddr(t, 3868), drawAddr(t, 43001))
	b := newSimConn(e, "B", drawAddr(t, 3868), drawAddr(t, 43002))
	lis.Connect(a)
	lis.Connect(b)
	regDone := make(chan struct{})
	defer func() {
		mu.Lock()
		g := gate
		gate = nil
		mu.Unlock()
		if g != nil {
			e.ParkEnd(true)
			close(g)
		}
		e.Quiesce()
		a.EndRead(io.EOF, false)
		b.EndRead(io.EOF, false)
		lis.Close()
		e.Quiesce()
	}()
	if t.Chance(1, 2) {
		b.Deliver(req("B0", 10)) // B has been served before
	}
	a.Deliver(req("A0", 1))
	e.Quiesce()
	mu.Lock()
	parked := gate != nil
	mu.Unlock()
	if !parked {
		e.Fail("C08/not-dispatched", "the first message of connection A was not handled")
		return
	}
	// the application registers one more handler while A's handler is still running
	name := []string{"XBR", "YCA", "Q9R"}[t.Draw(3)]
	byIdx := t.Chance(1, 3)
	go func() {
		if byIdx {
			mux.HandleIdx(diam.CommandIndex{AppID: 1002, Code: 910, Request: true}, diam.HandlerFunc(func(diam.Conn, *diam.Message) {}))
		} else {
			mux.HandleFunc(name, func(diam.Conn, *diam.Message) {})
		}
		close(regDone)
	}()
	e.Quiesce()
	e.Act("register-while-blocked", "%s idx=%v", name, byIdx)
	e.Probe("registration-while-handler-blocked")
	e.NonTrivial()
	b.Deliver(req("B1", 11))
	e.Quiesce()
	mu.Lock()
	gotB1 := false
	for _, tg := range entered {
		if tg == "B1" {
			gotB1 = true
		}
	}
	mu.Unlock()
	if !gotB1 {
		pending := "had returned"
		select {
		case <-regDone:
		default:
			pending = "is still waiting (for the mux lock the blocked dispatch holds)"
		}
		e.Fail("C08/blocked-by-other-connection/pending-registration", "a handler blocks on connection A and the application registers another handler on the mux, a call which %s; a message arriving on connection B is not dispatched until A's handler returns", pending)
	}
}

// c08Forward: a relay. The handler of a request on connection A forwards it through the Conn of
// connection B and gets stuck there (B's peer does not read). A's handler blocks: that is its
// business. B's peer meanwhile sends requests: they are dispatched, one at a time and in
// order, as on any connection whose handlers are free (the handlers look at the connection's
// context and addresses first, as handlers do).
func c08Forward(e *Env) {
	t := e.T
	e.TrustWait = false
	lis := newSimListener(e)
	mux := diam.NewServeMux()
	var mu sync.Mutex
	conns := map[string]diam.Conn{}
	var entered []string
	stuck := make(chan struct{}, 1)
	mux.HandleFunc("ALL", func(c diam.Conn, m *diam.Message) {
		_ = c.Context()
		_, _ = c.LocalAddr(), c.RemoteAddr()
		who := "?"
		if len(m.AVP) > 0 {
			who = string(m.AVP[0].Data.Serialize())
		}
		mu.Lock()
		conns[who[:1]] = c
		entered = append(entered, who)
		to := conns["B"]
		mu.Unlock()
		if who == "A-forward" && to != nil {
			fwd := diam.NewMessage(901, diam.RequestFlag, 0, 500, 500, simDict())
			fwd.NewAVP(avpSimOctets, 0, 0, datatype.OctetString(marker(0, 0, 300, 7)))
			fwd.WriteTo(to)
			select {
			case stuck <- struct{}{}:
			default:
			}
		}
	})
	srv := &diam.Server{Handler: mux, Dict: simDict()}
	go srv.Serve(lis)
	a := newSimConn(e, "A", drawAddr(t, 3868), drawAddr(t, 41001))
	b := newSimConn(e, "B", drawAddr(t, 3868), drawAddr(t, 41002))
	lis.Connect(a)
	lis.Connect(b)
	req := func(tag string, hbh uint32) []byte {
		return RefMsg{Cmd: 900, Flags: 0x80, HbH: hbh, E2E: hbh, AVPs: []RefAVP{{Code: avpSimOctets, Data: []byte(tag)}}}.Bytes()
	}
	defer func() {
		for _, sc := range []*SimConn{a, b} {
			sc.Resume()
			sc.EndRead(io.EOF, false)
		}
		lis.Close()
		e.Quiesce()
	}()
	b.Deliver(req("B-hello", 1))
	e.Quiesce()
	b.ArmWriteFault(&WriteFault{Kind: "stall", After: t.Range(0, 40)})
	a.Deliver(req("A-forward", 2))
	e.Quiesce()
	if !b.Stalled() {
		e.Harness("the forward did not reach B's transport")
	}
	e.Probe("handler-stuck-in-a-write-to-another-connection")
	e.NonTrivial()
	n := t.Range(1, 3)
	var want []string
	for k := 0; k < n; k++ {
		tag := fmt.Sprintf("B-req%d", k)
		want = append(want, tag)
		if t.Chance(1, 2) {
			raw := req(tag, uint32(10+k))
			cut := t.Range(1, len(raw)-1)
			b.Deliver(raw[:cut])
			e.Quiesce()
			b.Deliver(raw[cut:])
		} else {
			b.Deliver(req(tag, uint32(10+k)))
		}
		e.Act("deliver", "%s while A's handler is stuck in a write to B", tag)
		e.Quiesce()
	}
	mu.Lock()
	got := append([]string{}, entered...)
	mu.Unlock()
	var gotB []string
	for _, g := range got {
		if strings.HasPrefix(g, "B-req") {
			gotB = append(gotB, g)
		}
	}
	if strings.Join(gotB, ",") != strings.Join(want, ",") {
		e.Fail("C08/blocked-by-other-connection/forward", "the handler of connection A is blocked (stuck in a write to connection B, whose peer does not read); B's peer sent %v, dispatched on B: %v", want, gotB)
		return
	}
	b.Resume()
	e.Quiesce()
	select {
	case <-stuck:
	default:
		e.Fail("C08/handler-stuck", "B's peer reads again and the forward from A's handler has not returned")
	}
}

// c08ForwardSctp: the relay again, towards a multi-stream association. The handler of a request
// on connection A forwards raw bytes through the Conn of association B (Conn.Write) and gets
// stuck in the association's send. B's peer meanwhile sends complete messages on its streams:
// they are dispatched.
func c08ForwardSctp(e *Env) {
	t := e.T
	e.TrustWait = false
	lis := newSimListener(e)
	mux := diam.NewServeMux()
	var mu sync.Mutex
	var entered []string
	var connB diam.Conn
	stuck := make(chan struct{}, 1)
	fwdBytes := RefMsg{Cmd: 901, Flags: 0x80, HbH: 500, E2E: 500, AVPs: []RefAVP{{Code: avpSimOctets, Data: marker(0, 0, 200, 7)}}}.Bytes()
	mux.HandleFunc("ALL", func(c diam.Conn, m *diam.Message) {
		_ = c.Context()
		who := "?"
		if len(m.AVP) > 0 {
			who = string(m.AVP[0].Data.Serialize())
		}
		mu.Lock()
		entered = append(entered, who)
		to := connB
		mu.Unlock()
		if who == "A-forward" && to != nil {
			to.Write(fwdBytes)
			select {
			case stuck <- struct{}{}:
			default:
			}
		}
	})
	srv := &diam.Server{Handler: mux, Dict: simDict()}
	go srv.Serve(lis)
	a := newSimConn(e, "A", drawAddr(t, 3868), drawAddr(t, 41001))
	lis.Connect(a)
	be := newSimSCTP(e)
	msc := diam.NewVerifSCTPConn(be)
	defer diam.VerifSCTPRelease(msc)
	cb, err := diam.NewConn(msc.(net.Conn), "sim", mux, simDict())
	if err != nil {
		e.Harness("NewConn: %v", err)
	}
	mu.Lock()
	connB = cb
	mu.Unlock()
	req := func(tag string, hbh uint32) []byte {
		return RefMsg{Cmd: 900, Flags: 0x80, HbH: hbh, E2E: hbh, AVPs: []RefAVP{{Code: avpSimOctets, Data: []byte(tag)}}}.Bytes()
	}
	defer func() {
		be.Resume()
		be.End(io.EOF)
		a.EndRead(io.EOF, false)
		lis.Close()
		e.Quiesce()
	}()
	be.Feed(sctpChunk{uint16(t.Draw(4)), req("B-hello", 1)})
	e.Quiesce()
	be.ArmWriteFault(&WriteFault{Kind: "stall"})
	a.Deliver(req("A-forward", 2))
	e.Quiesce()
	e.Probe("handler-stuck-in-a-send-on-an-association")
	e.NonTrivial()
	n := t.Range(1, 3)
	var want []string
	for k := 0; k < n; k++ {
		tag := fmt.Sprintf("B-req%d", k)
		want = append(want, tag)
		st := uint16(t.Draw(4))
		raw := req(tag, uint32(10+k))
		if t.Chance(1, 2) {
			cut := t.Range(1, len(raw)-1)
			be.Feed(sctpChunk{st, raw[:cut]})
			e.Quiesce()
			be.Feed(sctpChunk{st, raw[cut:]})
		} else {
			be.Feed(sctpChunk{st, raw})
		}
		e.Act("feed", "%s on stream %d while A's handler is stuck in a send on B", tag, st)
		e.Quiesce()
	}
	mu.Lock()
	got := append([]string{}, entered...)
	mu.Unlock()
	var gotB []string
	for _, g := range got {
		if strings.HasPrefix(g, "B-req") {
			gotB = append(gotB, g)
		}
	}
	if strings.Join(gotB, ",") != strings.Join(want, ",") {
		e.Fail("C08/blocked-by-other-connection/forward-sctp", "the handler of connection A is blocked (stuck in a send on association B); B's peer sent %v, dispatched on B: %v", want, gotB)
		return
	}
	be.Resume()
	e.Quiesce()
	select {
	case <-stuck:
	default:
		e.Fail("C08/handler-stuck", "the association sends again and the forward from A's handler has not returned")
	}
}
