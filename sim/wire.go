package dsim

import (
	"bytes"
	"encoding/binary"
	"fmt"
	"strings"
	"sync"

	"github.com/fiorix/go-diameter/v4/diam/dict"
)

// Independent reference codec for RFC 6733 framing, used by scripted peers and
// oracles. It shares no code with the library.

// RefAVP is an AVP as the harness builds it.
type RefAVP struct {
	Code   uint32
	Flags  byte
	Vendor uint32 // only encoded when Flags has the V bit (0x80)
	Data   []byte
	Group  []RefAVP // when non-nil, Data is the encoding of Group
	// DeclLen overrides the declared length when non-zero (malformed input).
	DeclLen int
	DeclSet bool // DeclLen applies even when it is 0
}

// RefMsg is a Diameter message as the harness builds it.
type RefMsg struct {
	Flags byte
	Cmd   uint32
	App   uint32
	HbH   uint32
	E2E   uint32
	AVPs  []RefAVP
	// DeclLen overrides the declared message length when >= 0 and Override is set.
	Override bool
	DeclLen  int
	// TrimPad drops the padding of the last AVP and declares the unpadded length
	// (accepted by the reader; header length then differs from the padded size).
	TrimPad bool
}

func put24(b []byte, v int) { b[0], b[1], b[2] = byte(v>>16), byte(v>>8), byte(v) }
func get24(b []byte) int    { return int(b[0])<<16 | int(b[1])<<8 | int(b[2]) }

func (a RefAVP) Bytes() []byte {
	data := a.Data
	if a.Group != nil {
		var gb []byte
		for _, g := range a.Group {
			gb = append(gb, g.Bytes()...)
		}
		data = gb
	}
	hl := 8
	if a.Flags&0x80 != 0 {
		hl = 12
	}
	l := hl + len(data)
	pad := (4 - l%4) % 4
	b := make([]byte, l+pad)
	binary.BigEndian.PutUint32(b[0:4], a.Code)
	b[4] = a.Flags
	dl := l
	if a.DeclLen != 0 || a.DeclSet {
		dl = a.DeclLen
	}
	put24(b[5:8], dl)
	if hl == 12 {
		binary.BigEndian.PutUint32(b[8:12], a.Vendor)
	}
	copy(b[hl:], data)
	return b
}

func (m RefMsg) Bytes() []byte {
	var body []byte
	for _, a := range m.AVPs {
		body = append(body, a.Bytes()...)
	}
	if m.TrimPad && len(m.AVPs) > 0 {
		last := m.AVPs[len(m.AVPs)-1]
		hl := 8
		if last.Flags&0x80 != 0 {
			hl = 12
		}
		dl := len(last.Data)
		if last.Group != nil {
			dl = 0
			for _, g := range last.Group {
				dl += len(g.Bytes())
			}
		}
		pad := (4 - (hl+dl)%4) % 4
		body = body[:len(body)-pad]
	}
	b := make([]byte, 20+len(body))
	b[0] = 1
	l := len(b)
	if m.Override {
		l = m.DeclLen
	}
	put24(b[1:4], l)
	b[4] = m.Flags
	put24(b[5:8], int(m.Cmd))
	binary.BigEndian.PutUint32(b[8:12], m.App)
	binary.BigEndian.PutUint32(b[12:16], m.HbH)
	binary.BigEndian.PutUint32(b[16:20], m.E2E)
	copy(b[20:], body)
	return b
}

// refFrame takes the next message off b following the declared length only.
// status: "ok" (msg, rest), "short" (incomplete), "badlen" (declared < 20).
func refFrame(b []byte) (msg, rest []byte, status string) {
	if len(b) < 20 {
		return nil, b, "short"
	}
	l := get24(b[1:4])
	if l < 20 {
		return nil, b, "badlen"
	}
	if len(b) < l {
		return nil, b, "short"
	}
	return b[:l], b[l:], "ok"
}

// refParse decodes a wire message produced by the library into a RefMsg
// (top-level AVPs only; grouped payloads stay opaque unless asked).
func refParse(b []byte) (RefMsg, error) {
	var m RefMsg
	if len(b) < 20 {
		return m, fmt.Errorf("short header: %d", len(b))
	}
	if b[0] != 1 {
		return m, fmt.Errorf("version %d", b[0])
	}
	if get24(b[1:4]) != len(b) {
		return m, fmt.Errorf("declared length %d != %d", get24(b[1:4]), len(b))
	}
	m.Flags = b[4]
	m.Cmd = uint32(get24(b[5:8]))
	m.App = binary.BigEndian.Uint32(b[8:12])
	m.HbH = binary.BigEndian.Uint32(b[12:16])
	m.E2E = binary.BigEndian.Uint32(b[16:20])
	avps, err := refParseAVPs(b[20:])
	m.AVPs = avps
	return m, err
}

func refParseAVPs(b []byte) ([]RefAVP, error) {
	var out []RefAVP
	for len(b) > 0 {
		if len(b) < 8 {
			return out, fmt.Errorf("trailing %d bytes", len(b))
		}
		var a RefAVP
		a.Code = binary.BigEndian.Uint32(b[0:4])
		a.Flags = b[4]
		l := get24(b[5:8])
		hl := 8
		if a.Flags&0x80 != 0 {
			hl = 12
		}
		if l < hl || l > len(b) {
			return out, fmt.Errorf("avp %d: declared length %d (have %d)", a.Code, l, len(b))
		}
		if hl == 12 {
			a.Vendor = binary.BigEndian.Uint32(b[8:12])
		}
		a.Data = append([]byte{}, b[hl:l]...)
		out = append(out, a)
		adv := l + (4-l%4)%4
		if adv > len(b) {
			adv = len(b)
		}
		b = b[adv:]
	}
	return out, nil
}

func (m RefMsg) find(code uint32) *RefAVP {
	for i := range m.AVPs {
		if m.AVPs[i].Code == code {
			return &m.AVPs[i]
		}
	}
	return nil
}

func (m RefMsg) findAll(code uint32) []RefAVP {
	var out []RefAVP
	for _, a := range m.AVPs {
		if a.Code == code {
			out = append(out, a)
		}
	}
	return out
}

func u32(v uint32) []byte {
	b := make([]byte, 4)
	binary.BigEndian.PutUint32(b, v)
	return b
}

func (m RefMsg) String() string {
	var sb strings.Builder
	fmt.Fprintf(&sb, "{cmd=%d app=%d flags=%#x hbh=%#x e2e=%#x avps=[", m.Cmd, m.App, m.Flags, m.HbH, m.E2E)
	for i, a := range m.AVPs {
		if i > 0 {
			sb.WriteByte(' ')
		}
		fmt.Fprintf(&sb, "%d:%d", a.Code, len(a.Data))
	}
	sb.WriteString("]}")
	return sb.String()
}

// ---------------------------------------------------------------- sim dictionary

// The simulation dictionary is authored by the harness, so that the harness
// knows every command short name and AVP type without asking the library.
const simDictXML = `<?xml version="1.0" encoding="UTF-8"?>
<diameter>
  <application id="0" name="SimBase">
    <command code="257" short="CE" name="Capabilities-Exchange">
      <request><rule avp="Sim-Octets" required="false" max="1"/></request>
      <answer><rule avp="Sim-Octets" required="false" max="1"/></answer>
    </command>
    <command code="280" short="DW" name="Device-Watchdog">
      <request><rule avp="Sim-Octets" required="false" max="1"/></request>
      <answer><rule avp="Sim-Octets" required="false" max="1"/></answer>
    </command>
    <command code="900" short="XA" name="Sim-Alpha">
      <request><rule avp="Sim-Octets" required="false" max="1"/></request>
      <answer><rule avp="Sim-Octets" required="false" max="1"/></answer>
    </command>
    <command code="901" short="XB" name="Sim-Beta">
      <request><rule avp="Sim-Octets" required="false" max="1"/></request>
      <answer><rule avp="Sim-Octets" required="false" max="1"/></answer>
    </command>
    <command code="902" short="XN" name="Sim-NoRules">
    </command>
    <avp name="Result-Code" code="268" must="M" may="P" must-not="V" may-encrypt="N"><data type="Unsigned32"/></avp>
    <avp name="Sim-Octets" code="5001" must="" may="P,M" must-not="V" may-encrypt="N"><data type="OctetString"/></avp>
    <avp name="Sim-U32" code="5002" must="" may="P,M" must-not="V" may-encrypt="N"><data type="Unsigned32"/></avp>
    <avp name="Sim-Address" code="5003" must="" may="P,M" must-not="V" may-encrypt="N"><data type="Address"/></avp>
    <avp name="Sim-IPv4" code="5004" must="" may="P,M" must-not="V" may-encrypt="N"><data type="IPv4"/></avp>
    <avp name="Sim-IPv6" code="5005" must="" may="P,M" must-not="V" may-encrypt="N"><data type="IPv6"/></avp>
    <avp name="Sim-Group" code="5006" must="" may="P,M" must-not="V" may-encrypt="N">
      <data type="Grouped">
        <rule avp="Sim-Address" required="false"/>
        <rule avp="Sim-IPv4" required="false"/>
        <rule avp="Sim-IPv6" required="false"/>
        <rule avp="Sim-Octets" required="false"/>
        <rule avp="Sim-Group" required="false"/>
      </data>
    </avp>
    <avp name="Sim-UTF8" code="5007" must="" may="P,M" must-not="V" may-encrypt="N"><data type="UTF8String"/></avp>
    <avp name="Sim-Vendor-Octets" code="5008" must="V" may="P,M" must-not="" may-encrypt="N" vendor-id="9999"><data type="OctetString"/></avp>
    <avp name="Sim-Identity" code="5009" must="" may="P,M" must-not="V" may-encrypt="N"><data type="DiameterIdentity"/></avp>
  </application>
  <application id="1001" type="auth" name="SimAppOne">
    <command code="900" short="YA" name="Sim-One-Alpha">
      <request><rule avp="Sim-Octets" required="false" max="1"/></request>
      <answer><rule avp="Sim-Octets" required="false" max="1"/></answer>
    </command>
  </application>
  <application id="1" type="auth" name="SimGrandParent">
    <command code="922" short="NA" name="Sim-Grand-Alpha">
      <request><rule avp="Sim-Octets" required="false" max="1"/></request>
      <answer><rule avp="Sim-Octets" required="false" max="1"/></answer>
    </command>
  </application>
  <application id="4" type="auth" name="SimParent">
    <command code="920" short="PA" name="Sim-Parent-Alpha">
      <request><rule avp="Sim-Octets" required="false" max="1"/></request>
      <answer><rule avp="Sim-Octets" required="false" max="1"/></answer>
    </command>
  </application>
  <application id="16777251" type="auth" name="SimChild">
    <command code="921" short="SA" name="Sim-Child-Alpha">
      <request><rule avp="Sim-Octets" required="false" max="1"/></request>
      <answer><rule avp="Sim-Octets" required="false" max="1"/></answer>
    </command>
  </application>
  <application id="1002" type="acct" name="SimAppTwo">
    <command code="910" short="ZC" name="Sim-Two-Gamma">
      <request><rule avp="Sim-Octets" required="false" max="1"/></request>
      <answer><rule avp="Sim-Octets" required="false" max="1"/></answer>
    </command>
    <command code="8388700" short="ZV" name="Sim-Two-Vendor-Range">
      <request><rule avp="Sim-Octets" required="false" max="1"/></request>
      <answer><rule avp="Sim-Octets" required="false" max="1"/></answer>
    </command>
  </application>
</diameter>`

// simDictAddendumXML is a second dictionary file that re-declares an application of the
// first one (same id, type and name) in order to add a command to it.
const simDictAddendumXML = `<?xml version="1.0" encoding="UTF-8"?>
<diameter>
  <application id="1001" type="auth" name="SimAppOne">
    <command code="910" short="YC" name="Sim-One-Gamma">
      <request><rule avp="Sim-Octets" required="false" max="1"/></request>
      <answer><rule avp="Sim-Octets" required="false" max="1"/></answer>
    </command>
  </application>
</diameter>`

// simCmd is the harness's own table of the commands in simDictXML and its addendum.
type simCmd struct {
	App   uint32
	Code  uint32
	Short string
}

var simCmds = []simCmd{
	{0, 257, "CE"}, {0, 280, "DW"}, {0, 900, "XA"}, {0, 901, "XB"},
	{1001, 900, "YA"}, {1001, 910, "YC"}, {1002, 910, "ZC"}, {1002, 8388700, "ZV"},
	// application ids for which the library's AVP lookup knows a parent application
	// (16777251 -> 4 -> 1): command lookup has no such notion
	{1, 922, "NA"}, {4, 920, "PA"}, {16777251, 921, "SA"},
}

// simShort gives the short name the dictionary semantics assign to (app, code):
// the application's own command, else the base application's, else "".
func simShort(app, code uint32) string {
	for _, c := range simCmds {
		if c.App == app && c.Code == code {
			return c.Short
		}
	}
	for _, c := range simCmds {
		if c.App == 0 && c.Code == code {
			return c.Short
		}
	}
	return ""
}

const (
	avpResultCode  = 268
	avpSimOctets   = 5001
	avpSimU32      = 5002
	avpSimAddress  = 5003
	avpSimIPv4     = 5004
	avpSimIPv6     = 5005
	avpSimGroup    = 5006
	avpSimUTF8     = 5007
	avpSimVendor   = 5008
	avpSimIdentity = 5009
)

var (
	simDictReloadOK bool // (informational) the second Load of the same file was accepted
	simDictOnce sync.Once
	simDictP    *dict.Parser
)

// simDict returns the parser loaded with simDictXML (shared: the parser is
// read-only after loading).
func simDict() *dict.Parser {
	simDictOnce.Do(func() {
		p, err := dict.NewParser()
		if err == nil {
			err = p.Load(bytes.NewReader([]byte(simDictXML)))
		}
		if err == nil {
			err = p.Load(bytes.NewReader([]byte(simDictAddendumXML)))
		}
		if err != nil {
			panic("sim dictionary: " + err.Error())
		}
		// an application that loads the same file twice gets an error for the second attempt
		// ("index exists") and goes on with what it had: the dictionary must be none the worse
		if err := p.Load(bytes.NewReader([]byte(simDictXML))); err == nil {
			simDictReloadOK = true
		}
		simDictP = p
	})
	return simDictP
}

var (
	simDictBareOnce sync.Once
	simDictBareP    *dict.Parser
)

// simDictBare is simDict without the definition of Result-Code: an application dictionary
// loaded without the base protocol's AVPs. Codes the library itself puts into messages
// (Result-Code in Message.Answer) do not depend on the dictionary knowing them.
func simDictBare() *dict.Parser {
	simDictBareOnce.Do(func() {
		var keep []string
		for _, l := range strings.Split(simDictXML, "\n") {
			if !strings.Contains(l, `name="Result-Code"`) {
				keep = append(keep, l)
			}
		}
		p, err := dict.NewParser()
		if err == nil {
			err = p.Load(strings.NewReader(strings.Join(keep, "\n")))
		}
		if err == nil {
			err = p.Load(strings.NewReader(simDictAddendumXML))
		}
		if err != nil {
			panic("bare sim dictionary: " + err.Error())
		}
		simDictBareP = p
	})
	return simDictBareP
}

// marker builds the Sim-Octets payload identifying a message: "c<conn>/m<seq>/" padded to n bytes.
func marker(conn, seq, n int, fill byte) []byte {
	s := fmt.Sprintf("c%d/m%d/", conn, seq)
	if n < len(s) {
		n = len(s)
	}
	b := make([]byte, n)
	copy(b, s)
	for i := len(s); i < n; i++ {
		b[i] = fill + byte(i%7)
	}
	return b
}

func parseMarker(b []byte) (conn, seq int, ok bool) {
	n, err := fmt.Sscanf(string(b[:min(len(b), 40)]), "c%d/m%d/", &conn, &seq)
	return conn, seq, err == nil && n == 2
}
