package dsim

import (
	"context"
	"fmt"
	"io"
	"net"
	"sort"
	"strings"
	"sync"
	"time"

	"github.com/fiorix/go-diameter/v4/diam"
	"github.com/fiorix/go-diameter/v4/diam/datatype"
	"github.com/fiorix/go-diameter/v4/diam/sm"
	"github.com/fiorix/go-diameter/v4/diam/sm/smpeer"
)

// World A: a state machine as the handler of a served connection (server role).
// Decides C10 (server side), C11, the answering half of C13 and the CEA/DWA
// half of C16.

type smaItem struct {
	kind      string // "cer", "dwr", "app-req", "app-ans", "base-req", "cea"
	spec      cerSpec
	msg       RefMsg
	bytes     []byte
	failWrite string // arm this write fault before the item is processed ("", "perm", "temp", "plain")
	failAfter int
	dwrOK     bool
}

type smaConn struct {
	name  string
	sc    *SimConn
	items []*smaItem
	next  int
	// model
	hs                  bool
	closed              bool
	peerHost, peerRealm string
	shared              []uint32
	outPos              int // parsed outputs consumed so far
	outputs             []RefMsg
	recv                []byte
	cutPos              int
	appSeq              int
}

type smaEnter struct {
	conn, seq int
	h         string
	meta      *smpeer.Metadata
	metaOK    bool
}

type smaWorld struct {
	e           *Env
	prop        string
	settings    *sm.Settings
	mach        *sm.StateMachine
	lis         *SimListener
	conns       []*smaConn
	mu          sync.Mutex
	enters      []smaEnter
	checked     int
	regs        refRegs
	impostor    int
	reports     int
	cfgAddrs    []string
	keptReports []*retained
	auditDone   int
	appCtx      bool // the audit wrapper sets a cancellable context on each connection before the state machine sees it
	ctxSet      map[diam.Conn]bool
	audited     []*retained // every message, as the wrapper around the state machine saw it arrive
	hsc         <-chan diam.Conn
	stallRun    bool // one CEA write of this run may stall while the other connection goes on
	wt          bool // Server.WriteTimeout is set (one second)
	many        bool // many peers on one state machine, each with a handshake and little else
}

var smaHostname = "srv.dsim.example"
var smaRealm = "dsim.example"

func (w *smaWorld) appHandler(h string) diam.HandlerFunc {
	return func(c diam.Conn, m *diam.Message) {
		en := smaEnter{conn: -1, seq: -1, h: h}
		if len(m.AVP) > 0 {
			if ci, si, ok := parseMarker(m.AVP[0].Data.Serialize()); ok {
				en.conn, en.seq = ci, si
			}
		}
		en.meta, en.metaOK = smpeer.FromContext(c.Context())
		w.mu.Lock()
		w.enters = append(w.enters, en)
		w.mu.Unlock()
	}
}

// app messages the scripted peer may send: (app, code, short)
var smaAppCmds = []struct {
	app, code uint32
	short     string
}{
	{4, cmdCC, "CC"}, {0, cmdAC, "AC"}, {0, cmdST, "ST"}, {16777251, cmdUL, "UL"}, {3, cmdAC, "AC"},
}

func newSmaWorld(e *Env, prop string) *smaWorld {
	t := e.T
	w := &smaWorld{e: e, prop: prop, lis: newSimListener(e)}
	w.regs = refRegs{idx: map[[3]uint32]string{}, name: map[string]string{}}
	w.settings = &sm.Settings{
		OriginHost:  datatype.DiameterIdentity(smaHostname),
		OriginRealm: datatype.DiameterIdentity(smaRealm),
		VendorID:    13,
		ProductName: "dsim-server",
	}
	if t.Chance(1, 2) {
		w.settings.FirmwareRevision = 7
	}
	if t.Chance(1, 3) {
		w.settings.OriginStateID = 77
	}
	for i, n := 0, t.Draw(3); i < n; i++ {
		ip := net.IPv4(172, 16, byte(i), 1)
		if t.Chance(1, 3) {
			ip = net.ParseIP(fmt.Sprintf("2001:db8::%d", i+1))
		}
		w.settings.HostIPAddresses = append(w.settings.HostIPAddresses, datatype.Address(ip))
		w.cfgAddrs = append(w.cfgAddrs, ip.String())
	}
	sort.Strings(w.cfgAddrs)
	if len(w.settings.HostIPAddresses) == 1 && t.Chance(1, 2) {
		// the deprecated single-address field means the same thing
		w.settings.HostIPAddress, w.settings.HostIPAddresses = w.settings.HostIPAddresses[0], nil
		e.Probe("deprecated-host-ip-address-field")
	}
	w.mach = sm.New(w.settings)
	// application registrations through the state machine
	nh := 0
	newH := func() string { nh++; return fmt.Sprintf("h%d", nh) }
	for _, c := range smaAppCmds {
		for _, req := range []bool{true, false} {
			if t.Chance(1, 4) {
				h := newH()
				w.mach.HandleIdx(diam.CommandIndex{AppID: c.app, Code: c.code, Request: req}, w.appHandler(h))
				r := uint32(0)
				if req {
					r = 1
				}
				w.regs.idx[[3]uint32{c.app, c.code, r}] = h
			}
		}
	}
	for _, n := range []string{"CCR", "CCA", "ACR", "ACA", "STR", "ULR"} {
		if t.Chance(1, 3) {
			h := newH()
			w.mach.HandleFunc(n, w.appHandler(h))
			w.regs.name[n] = h
		}
	}
	if t.Chance(2, 3) {
		h := newH()
		if t.Chance(1, 2) {
			w.mach.HandleFunc("ALL", w.appHandler(h))
		} else {
			// the same catch-all, registered through the index API
			w.mach.HandleIdx(diam.ALL_CMD_INDEX, w.appHandler(h))
			e.Probe("catch-all-by-index")
		}
		w.regs.all = h
	}
	// a server-role state machine has no use for DWAs itself: they are the application's
	if t.Chance(1, 4) {
		h := newH()
		w.mach.HandleIdx(diam.CommandIndex{AppID: 0, Code: cmdDW, Request: false}, w.appHandler(h))
		w.regs.idx[[3]uint32{0, cmdDW, 0}] = h
	}
	if t.Chance(1, 3) {
		h := newH()
		w.mach.HandleFunc("DWA", w.appHandler(h))
		w.regs.name["DWA"] = h
	}
	if t.Chance(1, 2) {
		// the application asked for handshake notifications and is slow to pick them up
		w.hsc = w.mach.HandshakeNotify()
		e.Probe("handshake-notify-not-drained")
	}
	// attempts to take over the built-in processing must be refused
	imp := func(c diam.Conn, m *diam.Message) {
		w.mu.Lock()
		w.impostor++
		w.mu.Unlock()
	}
	if t.Chance(1, 2) {
		for _, n := range []string{"CER", "CEA", "DWR"} {
			if t.Chance(1, 2) {
				w.mach.HandleFunc(n, imp)
				e.Probe("refused-registration")
			}
		}
		for _, ix := range []diam.CommandIndex{{AppID: 0, Code: cmdCE, Request: true}, {AppID: 0, Code: cmdCE, Request: false}, {AppID: 0, Code: cmdDW, Request: true}} {
			if t.Chance(1, 2) {
				w.mach.HandleIdx(ix, diam.HandlerFunc(imp))
				e.Probe("refused-registration")
			}
		}
		w.drainReports()
	}
	// the application wraps the state machine in a handler of its own that keeps every message
	// (audit log); what the state machine then does with a message must not change it
	w.appCtx = t.Chance(1, 3)
	srv := &diam.Server{Handler: smaAudit{w}}
	if t.Chance(1, 3) {
		srv.WriteTimeout = time.Second // (fake time passes between deliveries, never during a write: it never expires)
		w.wt = true
		e.Probe("server-write-timeout-set")
	}
	go srv.Serve(w.lis)
	return w
}

func (w *smaWorld) drainReports() {
	for {
		select {
		case r := <-w.mach.ErrorReports():
			w.reports++
			if r != nil && r.Message != nil {
				w.checkReportedMessage(r.Message)
				// the application keeps the message an error report handed to it
				w.keptReports = append(w.keptReports, &retained{src: "error-report", m: r.Message, fp: fingerprint(r.Message), index: len(w.keptReports)})
				w.e.Probe("error-report-message-retained")
			}
		default:
			return
		}
	}
}

// smaAudit is the application's wrapper around the state machine.
type smaAudit struct{ w *smaWorld }

func (a smaAudit) ServeDIAM(c diam.Conn, m *diam.Message) {
	w := a.w
	r := &retained{src: "audit", m: m, fp: fingerprint(m)}
	w.mu.Lock()
	r.index = len(w.audited)
	w.audited = append(w.audited, r)
	first := !w.ctxSet[c]
	if first && w.appCtx {
		if w.ctxSet == nil {
			w.ctxSet = map[diam.Conn]bool{}
		}
		w.ctxSet[c] = true
	}
	w.mu.Unlock()
	if first && w.appCtx {
		// the application hangs a context of its own on every new connection (derived from the
		// connection's); the state machine adds its peer metadata on top of whatever is there
		ctx, cancel := context.WithCancel(c.Context())
		_ = cancel
		c.SetContext(ctx)
	}
	w.mach.ServeDIAM(c, m)
}
func (a smaAudit) Error(er *diam.ErrorReport)             { a.w.mach.Error(er) }
func (a smaAudit) ErrorReports() <-chan *diam.ErrorReport { return a.w.mach.ErrorReports() }

// checkReportedMessage: a message handed out through an error report is a message the
// reader returned; it must still be what the peer sent (C06: nothing the library does
// after the read alters it). Compared at the level the harness knows for certain: the
// sequence of top-level AVP codes of the wire message with the same command and
// identifiers (a prefix of it when decoding stopped early).
func (w *smaWorld) checkReportedMessage(m *diam.Message) {
	var got []uint32
	for _, a := range m.AVP {
		got = append(got, a.Code)
	}
	candidates := 0
	for _, c := range w.conns {
		for _, it := range c.items {
			if it.msg.Cmd != m.Header.CommandCode || it.msg.HbH != m.Header.HopByHopID || it.msg.E2E != m.Header.EndToEndID || it.msg.Flags != m.Header.CommandFlags {
				continue
			}
			candidates++
			if len(got) > len(it.msg.AVPs) {
				continue
			}
			same := true
			for i, code := range got {
				if it.msg.AVPs[i].Code != code {
					same = false
				}
			}
			if same {
				return
			}
		}
	}
	if candidates == 0 {
		return // not one of the scripted messages (cannot be attributed)
	}
	w.e.Fail("C06/reported-message-differs-from-wire", "an error report handed out message %d (hop-by-hop %#x) with top-level AVP codes %v; no message the peer sent with that command and those identifiers has them", m.Header.CommandCode, m.Header.HopByHopID, got)
}

// checkKept re-fingerprints every message obtained through an error report (C06).
func (w *smaWorld) checkKept(when string) bool {
	// each message is looked at again right after the step that handled it, and all of them
	// once more when the run ends
	w.mu.Lock()
	from := w.auditDone
	if when == "at the end of the run" {
		from = 0
	}
	audited := append([]*retained{}, w.audited[from:]...)
	w.auditDone = len(w.audited)
	w.mu.Unlock()
	for _, r := range audited {
		if now := fingerprint(r.m); now != r.fp {
			i := 0
			for i < len(now) && i < len(r.fp) && now[i] == r.fp[i] {
				i++
			}
			lo := max(0, i-40)
			w.e.Fail("C06/retained-message-changed/state-machine", "message #%d, kept by a handler wrapped around the state machine, changed %s: was ...%s, now ...%s", r.index, when,
				short(r.fp[lo:min(len(r.fp), i+60)], 120), short(now[lo:min(len(now), i+60)], 120))
			return false
		}
	}
	for _, r := range w.keptReports {
		if now := fingerprint(r.m); now != r.fp {
			w.e.Fail("C06/retained-message-changed/error-report", "message #%d handed out through an ErrorReport changed %s", r.index, when)
			return false
		}
	}
	return true
}

// selApp is the reference dispatch for an application message on a state machine.
func (w *smaWorld) selApp(app, code uint32, isReq bool, short string) string {
	r := uint32(0)
	sfx := "A"
	if isReq {
		r = 1
		sfx = "R"
	}
	if h, ok := w.regs.idx[[3]uint32{app, code, r}]; ok {
		return h
	}
	if h, ok := w.regs.name[short+sfx]; ok {
		return h
	}
	return w.regs.all
}

func drawCERSpec(t *Tape, wantAccept int) cerSpec {
	// wantAccept: 0 = anything, 1 = acceptable, 2 = rejected
	s := cerSpec{host: true, realm: true, hbh: uint32(t.Draw(1<<30)) + 1, e2e: uint32(t.Draw(1<<30)) + 1}
	if t.Chance(1, 2) {
		s.hbh = c16IDs[t.Draw(len(c16IDs))]
	}
	if t.Chance(1, 2) {
		s.e2e = c16IDs[t.Draw(len(c16IDs))]
	}
	s.flags = byte(t.Draw(8)) << 4 & 0x50 // P and T bits
	s.stateID = t.Chance(1, 3)
	s.inband = t.Pick(3, 2, 1)
	n := t.Pick(1, 4, 3, 2, 1, 1, 1, 1, 1)
	for i := 0; i < n; i++ {
		s.entries = append(s.entries, drawEntry(t))
	}
	if t.Chance(1, 40) {
		// a peer that lists hundreds of applications of one kind (counts around 255/256/257 and beyond)
		kind := []string{"auth", "acct"}[t.Draw(2)]
		cnt := []int{254, 255, 256, 257, 300, 520}[t.Draw(6)]
		okAt := t.Draw(cnt) // where the one supported application sits, if any
		hasOK := t.Chance(2, 3)
		var many []appEntry
		for i := 0; i < cnt; i++ {
			en := appEntry{kind: kind, id: uint32(20000 + i)}
			if hasOK && i == okAt {
				en.id = entryID(kind, 0, t.Draw(5))
			}
			many = append(many, en)
		}
		if t.Chance(1, 2) {
			s.entries = append(many, s.entries...)
		} else {
			s.entries = append(s.entries, many...)
		}
	}
	if t.Chance(1, 8) {
		s.host = false
	}
	if t.Chance(1, 8) {
		s.realm = false
	}
	switch wantAccept {
	case 1:
		s.host, s.realm = true, true
		if s.inband == 2 {
			s.inband = 1
		}
		if len(s.sharedIDs()) == 0 {
			s.entries = append(s.entries, appEntry{kind: "auth", id: 4})
		}
	case 2:
		if s.accept() {
			switch t.Draw(3) {
			case 0:
				s.inband = 2
			case 1:
				s.entries = []appEntry{{kind: "auth", id: 999}}
			default:
				s.host = false
			}
		}
	}
	return s
}

func (w *smaWorld) genConn(i int, nItems int) *smaConn {
	t := w.e.T
	c := &smaConn{name: fmt.Sprintf("c%d", i)}
	c.sc = newSimConn(w.e, c.name, drawLocalAddr(t, 3868), drawAddr(t, 41000+i))
	if t.Chance(1, 5) {
		c.sc.MaxRead = t.Range(1, 50)
	}
	peerHost := fmt.Sprintf("peer%d.example", i)
	if i > 0 && t.Chance(1, 3) {
		// the same peer identity on a second connection (a reconnect, or a second link of one host):
		// what this one negotiates is its own
		peerHost = "peer0.example"
		w.e.Probe("same-peer-identity-on-two-connections")
	}
	var lastCER *smaItem
	usedDWR := map[[2]uint32]bool{}
	for k := 0; k < nItems; k++ {
		it := &smaItem{}
		pick := t.Pick(4, 2, 2, 2, 5, 2, 1, 1)
		if w.many && k == 0 && pick > 1 {
			pick = 0 // most of the many peers start with a CER that can be accepted
		}
		switch pick {
		case 0:
			it.kind = "cer"
			it.spec = drawCERSpec(t, 1)
		case 1:
			it.kind = "cer"
			it.spec = drawCERSpec(t, 2)
		case 2:
			if lastCER != nil { // retransmission of the previous CER
				it.kind = "cer"
				it.spec = lastCER.spec
			} else {
				it.kind = "cer"
				it.spec = drawCERSpec(t, 0)
			}
		case 3:
			it.kind = "dwr"
		case 4:
			it.kind = "app-req"
		case 5:
			it.kind = "app-ans"
		case 6:
			it.kind = "cea" // a CEA sent to a server: nothing built-in handles it
		default:
			it.kind = "dwa" // a DWA sent to a server: an application message like any other
		}
		switch it.kind {
		case "cer":
			it.msg = it.spec.msg(peerHost, "example")
			lastCER = it
			if t.Chance(1, 6) {
				it.failWrite = []string{"perm", "temp", "plain"}[t.Draw(3)]
				it.failAfter = t.Range(0, 60)
			} else if w.stallRun && t.Chance(1, 3) {
				it.failWrite = "stall" // the peer stops reading: the CEA write blocks for a while
				it.failAfter = t.Range(0, 60)
			}
		case "dwr":
			it.dwrOK = !t.Chance(1, 5)
			m := RefMsg{Cmd: cmdDW, Flags: 0x80 | byte(t.Draw(2))<<6, HbH: c16IDs[t.Draw(4)] + uint32(t.Draw(3)), E2E: c16IDs[t.Draw(4)] + uint32(t.Draw(3))}
			if usedDWR[[2]uint32{m.HbH, m.E2E}] {
				m.E2E = uint32(5000 + k) // keep (hop-by-hop, end-to-end) unique per connection so answers pair unambiguously
			}
			usedDWR[[2]uint32{m.HbH, m.E2E}] = true
			m.AVPs = identAVPs(peerHost, "example", it.dwrOK || t.Chance(1, 2), it.dwrOK)
			if t.Chance(1, 3) {
				m.AVPs = append(m.AVPs, RefAVP{Code: avpOriginState, Flags: 0x40, Data: u32([]uint32{5, 0, 0xffffffff}[t.Draw(3)])})
			}
			it.msg = m
			if t.Chance(1, 6) {
				it.failWrite = []string{"perm", "temp", "plain"}[t.Draw(3)]
				it.failAfter = t.Range(0, 40)
			} else if w.stallRun && t.Chance(1, 3) {
				it.failWrite = "stall" // the peer stops reading: the DWA write blocks for a while
				it.failAfter = t.Range(0, 40)
			}
		case "app-req", "app-ans":
			ac := smaAppCmds[t.Draw(len(smaAppCmds))]
			m := RefMsg{Cmd: ac.code, App: ac.app, HbH: uint32(k + 1), E2E: uint32(100 + k)}
			if it.kind == "app-req" {
				m.Flags = 0x80
			}
			m.AVPs = []RefAVP{{Code: avpSessionID, Flags: 0x40, Data: marker(i, k, 12+t.Draw(30), 'x')}}
			m.AVPs = append(m.AVPs, identAVPs(peerHost, "example", true, true)...)
			it.msg = m
		case "dwa":
			m := RefMsg{Cmd: cmdDW, App: 0, HbH: uint32(k + 1), E2E: uint32(100 + k)}
			m.AVPs = []RefAVP{{Code: avpSessionID, Flags: 0x40, Data: marker(i, k, 12+t.Draw(30), 'x')}, {Code: 268, Flags: 0x40, Data: u32(2001)}}
			m.AVPs = append(m.AVPs, identAVPs(peerHost, "example", true, true)...)
			it.msg = m
		case "cea":
			m := RefMsg{Cmd: cmdCE, HbH: 5, E2E: 5}
			m.AVPs = append([]RefAVP{{Code: 268, Flags: 0x40, Data: u32(2001)}}, identAVPs(peerHost, "example", true, true)...)
			it.msg = m
		}
		it.bytes = it.msg.Bytes()
		c.items = append(c.items, it)
	}
	return c
}

// collect parses what the library wrote on a connection since the last call,
// leaving out fragments accepted by a transport write that then failed.
func (c *smaConn) collect(e *Env, prop string) {
	full := c.sc.Written()
	var clean []byte
	cut := 0
	for _, r := range c.sc.WriteRecs() {
		if r.Err != "" {
			clean = append(clean, full[cut:r.Start]...)
			cut = r.Start + r.N
		}
	}
	clean = append(clean, full[cut:]...)
	rest := clean[c.cutPos:]
	for {
		msg, r2, st := refFrame(rest)
		if st != "ok" {
			break
		}
		rm, err := refParse(msg)
		if err != nil {
			e.Fail(prop+"/unparsable-output", "%s: the library wrote a message the reference parser rejects: %v", c.name, err)
			return
		}
		c.outputs = append(c.outputs, rm)
		c.cutPos += len(msg)
		rest = r2
	}
}

// step delivers the next k items of a connection in one burst and checks the outcome.
func (w *smaWorld) step(ci int, k int, split bool) bool {
	e := w.e
	c := w.conns[ci]
	items := c.items[c.next : c.next+k]
	var burst []byte
	for _, it := range items {
		burst = append(burst, it.bytes...)
	}
	armed := ""
	if len(items) == 1 && items[0].failWrite != "" {
		c.sc.ArmWriteFault(&WriteFault{Kind: items[0].failWrite, After: items[0].failAfter})
		armed = items[0].failWrite
	}
	for _, it := range items {
		cls := it.kind
		if it.kind == "cer" {
			if it.spec.accept() {
				cls = "cer+"
			} else {
				cls = "cer-"
			}
		}
		e.Act("item:"+cls, "")
	}
	e.Act("deliver", "%s items %d..%d (%d B) %s", c.name, c.next, c.next+k-1, len(burst), armed)
	wasClosed := c.sc.Closed()
	if split && len(burst) > 2 {
		cut := e.T.Range(1, len(burst)-1)
		c.sc.Deliver(burst[:cut])
		e.Quiesce()
		c.sc.Deliver(burst[cut:])
	} else {
		c.sc.Deliver(burst)
	}
	e.Quiesce()
	if armed == "stall" {
		armed = ""
		if c.sc.Stalled() {
			// the CEA (or whatever this item made the library write) is stuck in the transport;
			// meanwhile the other connections are served as if nothing had happened
			e.Fault("cea-write-stall")
			for oi, oc := range w.conns {
				if oi != ci && oc.next < len(oc.items) && oc.items[oc.next].failWrite != "stall" {
					n := 1 + e.T.Draw(min(3, len(oc.items)-oc.next))
					for j := 1; j < n; j++ {
						if oc.items[oc.next+j].failWrite == "stall" {
							n = j
							break
						}
					}
					e.Probe("other-connection-served-during-stalled-cea")
					if !w.step(oi, n, false) {
						return false
					}
				}
			}
			c.sc.Resume()
			e.Quiesce()
		}
	}
	w.drainReports()
	c.collect(e, w.prop)
	if e.Failed() || !w.checkKept("after further messages were read") {
		return false
	}
	// run the reference model over the items
	for j, it := range items {
		seq := c.next + j
		if wasClosed {
			break // the library cannot have read them
		}
		if !w.model(ci, seq, it, armed != "") {
			return false
		}
	}
	c.next += k
	c.sc.ArmWriteFault(nil)
	if c.outPos != len(c.outputs) {
		e.Fail(w.prop+"/unexpected-output", "%s: the library wrote %d message(s) the reference model does not expect, first: %s", c.name, len(c.outputs)-c.outPos, c.outputs[c.outPos])
		return false
	}
	w.mu.Lock()
	extra := len(w.enters) - w.checked
	imp := w.impostor
	w.mu.Unlock()
	if extra != 0 {
		w.mu.Lock()
		en := w.enters[w.checked]
		w.mu.Unlock()
		e.Fail("C10/handler-ran-unexpectedly", "application handler %s was entered for %s message %d, which the reference gate does not allow (handshaken=%v)", en.h, c.name, en.seq, c.hs)
		return false
	}
	if imp > 0 {
		e.Fail("C10/builtin-replaced", "a handler registered for CER/CEA/DWR through the state machine was invoked")
		return false
	}
	return true
}

// nextOutput returns the next message the library wrote on c, or nil.
func (c *smaConn) nextOutput() *RefMsg {
	if c.outPos < len(c.outputs) {
		m := &c.outputs[c.outPos]
		c.outPos++
		return m
	}
	return nil
}

func (w *smaWorld) expectEnter(ci, seq int, want string, c *smaConn) bool {
	e := w.e
	w.mu.Lock()
	defer w.mu.Unlock()
	if want == "" {
		return true
	}
	if w.checked >= len(w.enters) {
		e.Fail("C10/handler-not-invoked", "%s message %d: the peer completed the handshake and handler %s matches, but no application handler ran", c.name, seq, want)
		return false
	}
	en := w.enters[w.checked]
	w.checked++
	if en.conn != ci || en.seq != seq || en.h != want {
		e.Fail("C10/wrong-handler", "%s message %d: expected handler %s, handler %s ran for c%d message %d", c.name, seq, want, en.h, en.conn, en.seq)
		return false
	}
	// C11: metadata seen by the gated handler
	if !en.metaOK || en.meta == nil {
		e.Fail("C11/metadata-missing", "%s: a gated handler ran but the connection carries no peer metadata", c.name)
		return false
	}
	if string(en.meta.OriginHost) != c.peerHost || string(en.meta.OriginRealm) != c.peerRealm {
		e.Fail("C11/metadata-identity", "%s: metadata identity %s/%s, the accepted CER named %s/%s", c.name, en.meta.OriginHost, en.meta.OriginRealm, c.peerHost, c.peerRealm)
		return false
	}
	got := map[uint32]bool{}
	for _, id := range en.meta.Applications {
		got[id] = true
	}
	ok := len(got) == len(c.shared)
	for _, id := range c.shared {
		if !got[id] {
			ok = false
		}
	}
	if !ok {
		e.Fail("C11/metadata-applications", "%s: metadata applications %v, the shared ids of the accepted CER are %v", c.name, en.meta.Applications, c.shared)
		return false
	}
	return true
}

// model advances the reference gate by one item and compares with the library.
func (w *smaWorld) model(ci, seq int, it *smaItem, writeFaultArmed bool) bool {
	e := w.e
	c := w.conns[ci]
	transportClosed := c.closed
	switch it.kind {
	case "cer":
		if c.hs {
			e.Probe("cer-retransmission-ignored")
			return true // retransmission: ignored
		}
		if transportClosed {
			// the CEA cannot be written: nothing may come out, no handshake
			return true
		}
		out := c.nextOutput()
		if writeFaultArmed {
			// the CEA write failed part-way: no complete CEA on the wire, peer not handshaken
			if out != nil {
				c.outPos--
			}
			if !it.spec.accept() {
				c.closed = true
			}
			e.Probe("cea-write-failed")
			return w.checkClosed(c, !it.spec.accept(), "rejected CER")
		}
		if out == nil {
			e.Fail("C11/no-cea", "%s item %d: a CER was delivered and no CEA came back", c.name, seq)
			return false
		}
		if !w.checkCEA(c, it, out) {
			return false
		}
		if it.spec.accept() {
			c.hs = true
			c.peerHost, c.peerRealm = string(it.msg.find(avpOriginHost).Data), string(it.msg.find(avpOriginRealm).Data)
			c.shared = it.spec.sharedIDs()
			e.Probe("handshake-ok")
			return w.checkClosed(c, false, "accepted CER")
		}
		c.closed = true
		e.Probe("cer-rejected")
		return w.checkClosed(c, true, "rejected CER")
	case "dwr":
		if transportClosed {
			return true
		}
		if !c.hs || !it.dwrOK {
			// The property only speaks about handshaken peers; an answer to a
			// not-yet-handshaken peer is neither required nor forbidden.
			if out := c.nextOutput(); out != nil && (out.Cmd != cmdDW || out.HbH != it.msg.HbH || out.E2E != it.msg.E2E) {
				c.outPos--
			}
			return true
		}
		if writeFaultArmed {
			// the DWA write failed part-way: no complete DWA is on the wire; the failure is the
			// transport's, the connection stays as it is
			e.Probe("dwa-write-failed")
			return true
		}
		out := c.nextOutput()
		if out == nil {
			e.Fail("C13/no-dwa", "%s item %d: a handshaken peer sent a well-formed DWR and no DWA came back", c.name, seq)
			return false
		}
		return w.checkDWA(c, it, out)
	case "app-req", "app-ans":
		if !c.hs {
			return true // any ENTER is caught by the caller as unexpected
		}
		short := ""
		for _, ac := range smaAppCmds {
			if ac.app == it.msg.App && ac.code == it.msg.Cmd {
				short = ac.short
			}
		}
		want := w.selApp(it.msg.App, it.msg.Cmd, it.kind == "app-req", short)
		if want != "" {
			e.Probe("app-handler-after-handshake")
		}
		return w.expectEnter(ci, seq, want, c)
	case "dwa":
		if !c.hs {
			return true // any ENTER is caught by the caller as unexpected
		}
		return w.expectEnter(ci, seq, w.selApp(0, cmdDW, false, "DW"), c)
	case "cea":
		if c.hs && w.regs.all != "" {
			// only the catch-all can match a CEA on a server; it carries no marker
			w.mu.Lock()
			if w.checked < len(w.enters) && w.enters[w.checked].h == w.regs.all && w.enters[w.checked].seq == -1 {
				w.checked++
			}
			w.mu.Unlock()
		}
		return true
	}
	return true
}

func (w *smaWorld) checkClosed(c *smaConn, want bool, why string) bool {
	if want && !c.sc.Closed() {
		w.e.Fail("C11/not-closed-after-rejection", "%s: %s but the transport was not closed", c.name, why)
		return false
	}
	if !want && c.sc.Closed() && !c.closed {
		w.e.Fail("C11/closed-after-success", "%s: %s and the transport was closed", c.name, why)
		return false
	}
	return true
}

func mirrorHeader(prop, what string, e *Env, req RefMsg, a *RefMsg) bool {
	var d string
	switch {
	case a.Cmd != req.Cmd:
		d = fmt.Sprintf("command: %d vs %d", a.Cmd, req.Cmd)
	case a.App != req.App:
		d = fmt.Sprintf("application: %d vs %d", a.App, req.App)
	case a.HbH != req.HbH:
		d = fmt.Sprintf("hop-by-hop: answer %#x, request %#x", a.HbH, req.HbH)
	case a.E2E != req.E2E:
		d = fmt.Sprintf("end-to-end: answer %#x, request %#x", a.E2E, req.E2E)
	case a.Flags&0x80 != 0:
		d = fmt.Sprintf("rbit: answer flags %#x", a.Flags)
	case a.Flags&0x40 != req.Flags&0x40:
		d = fmt.Sprintf("pbit: answer flags %#x, request flags %#x", a.Flags, req.Flags)
	case len(a.findAll(268)) != 1:
		d = "result-code: missing"
	}
	if d != "" {
		e.Fail("C16/"+what+"-mismatch/"+d[:strings.IndexByte(d, ':')], "%s does not mirror its request: %s", what, d)
		return false
	}
	return true
}

func (w *smaWorld) checkIdentity(c *smaConn, what string, a *RefMsg) bool {
	e := w.e
	oh, or := a.find(avpOriginHost), a.find(avpOriginRealm)
	if oh == nil || or == nil || string(oh.Data) != smaHostname || string(or.Data) != smaRealm {
		e.Fail(w.sigProp(what)+"/"+what+"-identity", "%s: the %s does not carry the local identity from the settings", c.name, what)
		return false
	}
	return true
}

func (w *smaWorld) sigProp(what string) string {
	if what == "dwa" {
		return "C13"
	}
	return "C11"
}

func (w *smaWorld) checkCEA(c *smaConn, it *smaItem, a *RefMsg) bool {
	e := w.e
	if a.Cmd != cmdCE || a.Flags&0x80 != 0 {
		e.Fail("C11/no-cea", "%s: expected a CEA in reply to the CER, got %s", c.name, a)
		return false
	}
	if !mirrorHeader(w.prop, "cea", e, it.msg, a) {
		return false
	}
	if !w.checkIdentity(c, "cea", a) {
		return false
	}
	rc := be32(a.find(268).Data)
	if it.spec.accept() {
		if rc != 2001 {
			e.Fail("C11/acceptable-cer-rejected", "%s: CER %s is acceptable (shared ids %v) but the CEA carries Result-Code %d", c.name, specString(it.spec), it.spec.sharedIDs(), rc)
			return false
		}
		adv := advertisedApps(*a)
		for _, k := range it.spec.sharedApps() {
			if !adv[k] {
				e.Fail("C11/cea-does-not-advertise-shared-app", "%s: success CEA does not advertise the shared application %d (%s)", c.name, k.id, k.typ)
				return false
			}
		}
	} else {
		if rc == 2001 {
			e.Fail("C11/unacceptable-cer-accepted", "%s: CER %s must be rejected (causes %v) but the CEA says success", c.name, specString(it.spec), keys32(it.spec.causes()))
			return false
		}
		if !it.spec.causes()[rc] {
			e.Fail("C11/wrong-failure-code", "%s: CER %s rejected with Result-Code %d, applicable causes are %v", c.name, specString(it.spec), rc, keys32(it.spec.causes()))
			return false
		}
	}
	// host addresses
	got := hostIPs(*a)
	if len(w.cfgAddrs) > 0 {
		if strings.Join(got, ",") != strings.Join(w.cfgAddrs, ",") {
			e.Fail("C11/cea-host-addresses", "%s: CEA Host-IP-Address %v, configured %v", c.name, got, w.cfgAddrs)
			return false
		}
	} else {
		local := endpointIPs(c.sc.LocalAddr())
		if len(got) == 0 || !sharesAddr(got, c.sc.LocalAddr()) {
			e.Fail("C11/cea-host-addresses/local-endpoint", "%s: no host address configured; CEA Host-IP-Address %v does not contain the local endpoint %s", c.name, got, local)
			return false
		}
	}
	return true
}

func (w *smaWorld) checkDWA(c *smaConn, it *smaItem, a *RefMsg) bool {
	e := w.e
	if a.Cmd != cmdDW || a.Flags&0x80 != 0 {
		e.Fail("C13/no-dwa", "%s: expected a DWA, got %s", c.name, a)
		return false
	}
	if !mirrorHeader(w.prop, "dwa", e, it.msg, a) {
		return false
	}
	if rc := be32(a.find(268).Data); rc != 2001 {
		e.Fail("C13/dwa-result-code", "%s: DWA carries Result-Code %d", c.name, rc)
		return false
	}
	e.Probe("dwa-checked")
	return w.checkIdentity(c, "dwa", a)
}

func specString(s cerSpec) string {
	var sb strings.Builder
	fmt.Fprintf(&sb, "{host:%v realm:%v inband:%d apps:[", s.host, s.realm, s.inband)
	for i, en := range s.entries {
		if i > 0 {
			sb.WriteByte(' ')
		}
		fmt.Fprintf(&sb, "%s=%d", en.kind, en.id)
		if strings.HasPrefix(en.kind, "vs-") && en.vendorFirst {
			sb.WriteString("(vf)")
		}
		if en.typ2 != "" {
			fmt.Fprintf(&sb, "+%s=%d", en.typ2, en.id2)
		}
	}
	sb.WriteString("]}")
	return sb.String()
}

func keys32(m map[uint32]bool) []uint32 {
	var out []uint32
	for k := range m {
		out = append(out, k)
	}
	sort.Slice(out, func(i, j int) bool { return out[i] < out[j] })
	return out
}

func containsStr(l []string, s string) bool {
	for _, x := range l {
		if x == s {
			return true
		}
	}
	return false
}

func (w *smaWorld) teardown() {
	if !w.e.Failed() {
		w.checkKept("at the end of the run")
	}
	if w.hsc != nil {
		// now the application gets round to its notifications (lets a sender that waits go on)
		hsc := w.hsc
		stop := make(chan struct{})
		defer close(stop)
		go func() {
			for {
				select {
				case <-hsc:
				case <-stop:
					return
				}
			}
		}()
	}
	for _, c := range w.conns {
		c.sc.Resume()
		c.sc.EndRead(io.EOF, false)
	}
	w.lis.Close()
	w.e.Quiesce()
}

// run drives random histories over 1-2 connections.
func smaRun(e *Env, prop string) {
	t := e.T
	e.TrustWait = true
	if _, err := loadAppTable(); err != nil {
		e.Harness("application table: %v", err)
	}
	w := newSmaWorld(e, prop)
	defer w.teardown()
	nc := t.Range(1, 2)
	if prop == "C08" {
		nc = 2
	}
	if nc == 2 && (prop == "C08" || t.Chance(1, 3)) {
		w.stallRun = true
		e.TrustWait = false // a handler is held inside a transport write while others run
	}
	maxItems := 12
	maxSteps := 60
	if prop != "C08" && !w.stallRun && t.Chance(1, 12) {
		// a busy server: many peers, one after the other or interleaved, each with a handshake
		// and little else (whatever the state machine keeps per handshake is kept many times)
		nc, maxItems, maxSteps = t.Range(17, 30), 3, 120
		w.many = true
		e.Probe("many-connections")
	}
	for i := 0; i < nc; i++ {
		c := w.genConn(i, t.Range(1, maxItems))
		w.conns = append(w.conns, c)
		w.lis.Connect(c.sc)
	}
	e.Quiesce()
	for steps := 0; steps < maxSteps; steps++ {
		var live []int
		for i, c := range w.conns {
			if c.next < len(c.items) {
				live = append(live, i)
			}
		}
		if len(live) == 0 {
			break
		}
		e.T.Mark()
		ci := live[t.Draw(len(live))]
		c := w.conns[ci]
		k := 1
		if t.Chance(1, 3) {
			k = t.Range(1, len(c.items)-c.next)
		}
		if len(live) > 1 {
			e.NonTrivial()
		}
		if w.wt && !w.stallRun && t.Chance(2, 3) {
			// the peers take their time: each answer's write deadline counts from that answer
			e.Quiesce()
			e.Advance(time.Duration(t.Range(1, 4)) * 100 * time.Millisecond)
		}
		if !w.step(ci, k, t.Chance(1, 3)) {
			return
		}
	}
	e.NonTrivial()
}
