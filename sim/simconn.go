package dsim

import (
	"errors"
	"fmt"
	"io"
	"net"
	"os"
	"strings"
	"sync"
	"time"
)

// simNetErr is a net.Error with a chosen Temporary() answer.
type simNetErr struct {
	msg     string
	temp    bool
	timeout bool // Timeout() too (a temporary error may say both, e.g. EAGAIN)
}

func (e *simNetErr) Error() string   { return e.msg }
func (e *simNetErr) Timeout() bool   { return e.timeout }
func (e *simNetErr) Temporary() bool { return e.temp }

var errSimReset = &simNetErr{msg: "sim: connection reset by peer", temp: false}

// simTimeoutErr is what a read past its deadline returns (like os.ErrDeadlineExceeded).
type simTimeoutErr struct{}

func (*simTimeoutErr) Error() string   { return "sim: i/o timeout" }
func (*simTimeoutErr) Timeout() bool   { return true }
func (*simTimeoutErr) Temporary() bool { return true }

// WriteFault is a one-shot fault armed on a SimConn's write side.
type WriteFault struct {
	Kind  string // "stall", "temp", "perm", "plain"
	After int    // bytes accepted before the fault takes effect
}

// WriteRec describes one Write call seen by the transport.
type WriteRec struct {
	Seq   uint64
	Start int // offset in the write log
	N     int
	At    time.Duration // fake time since run start (when Write was entered)
	End   time.Duration // fake time at which Write returned
	Err   string
}

// SimConn is an in-memory net.Conn whose delivery, faults and timing the
// engine decides. Only the library side is a real endpoint; the far end is a
// scripted peer driven inline by the engine.
type SimConn struct {
	e    *Env
	Name string
	mu   sync.Mutex

	rbuf        []byte
	rerr        error // returned once rbuf is drained
	errWithData bool  // the last bytes and rerr are returned by the same Read call
	ErrSeen     bool  // a Read has returned rerr (the reader consumed the end condition)
	rwait       chan struct{}
	laArm       bool
	HalfClosed  int // CloseWrite calls
	laGate      chan struct{}
	MaxRead     int // cap per Read, 0 = none
	inRead      bool
	Reads       int
	ReadBytes   int

	closed     bool
	CloseCount int
	CloseAt    time.Duration
	CloseSeq   uint64

	wlog      []byte
	Writes    []WriteRec
	wfault    *WriteFault
	stalled   bool
	resume    chan struct{}
	wconsumed int // bytes of wlog the scripted peer has consumed

	laddr, raddr net.Addr
	start        time.Time
	rdeadline    time.Time // honoured by Read on the fake clock (zero = none)
	wdeadline    time.Time // honoured by a stalled Write on the fake clock
	Timeouts     int
}

func newSimConn(e *Env, name string, laddr, raddr net.Addr) *SimConn {
	return &SimConn{e: e, Name: name, rwait: make(chan struct{}, 1), laddr: laddr, raddr: raddr, start: time.Now()}
}

func (c *SimConn) Read(p []byte) (int, error) {
	for {
		c.mu.Lock()
		if len(p) == 0 {
			c.mu.Unlock()
			return 0, nil
		}
		if len(c.rbuf) > 0 {
			n := len(c.rbuf)
			if n > len(p) {
				n = len(p)
			}
			if c.MaxRead > 0 && n > c.MaxRead {
				n = c.MaxRead
			}
			copy(p, c.rbuf[:n])
			c.rbuf = c.rbuf[n:]
			c.Reads++
			c.ReadBytes += n
			if len(c.rbuf) == 0 && c.rerr != nil && c.errWithData {
				err := c.rerr
				c.ErrSeen = true
				c.mu.Unlock()
				c.e.Fault("eof-with-data")
				return n, err
			}
			c.mu.Unlock()
			return n, nil
		}
		if c.closed {
			c.mu.Unlock()
			return 0, net.ErrClosed
		}
		if c.rerr != nil {
			err := c.rerr
			c.ErrSeen = true
			c.mu.Unlock()
			return 0, err
		}
		// Park. The park is accounted here and un-accounted by whoever wakes us
		// (wakeReaderLocked), so the count is never stale while we are runnable.
		dl := c.rdeadline
		if !dl.IsZero() {
			until := time.Until(dl)
			if until <= 0 {
				c.Timeouts++
				c.mu.Unlock()
				c.e.Fault("read-timeout")
				return 0, os.ErrDeadlineExceeded
			}
			// a deadline is pending: wait on the fake clock as well (not a seam park:
			// a timer wait is durable but ends without a waker)
			c.inRead = true
			c.e.ParkBegin(false)
			c.mu.Unlock()
			tm := time.NewTimer(until)
			select {
			case <-c.rwait:
				tm.Stop()
			case <-tm.C:
				c.mu.Lock()
				if c.inRead {
					c.inRead = false
					c.e.ParkEnd(false)
				} else {
					<-c.rwait // a waker got in at the same instant: consume its token
				}
				c.mu.Unlock()
			}
			continue
		}
		c.inRead = true
		c.e.ParkBegin(false)
		c.mu.Unlock()
		<-c.rwait
	}
}

// wakeReaderLocked wakes a parked Read (c.mu held).
func (c *SimConn) wakeReaderLocked() {
	if c.inRead {
		c.inRead = false
		c.e.ParkEnd(false)
		c.rwait <- struct{}{} // capacity 1, exactly one token per park
	}
}

// Deliver makes bytes readable (engine side).
func (c *SimConn) Deliver(b []byte) {
	c.mu.Lock()
	c.rbuf = append(c.rbuf, b...)
	c.wakeReaderLocked()
	c.mu.Unlock()
}

// EndRead makes reads fail with err once delivered bytes are consumed (EOF), or
// at once, discarding undelivered bytes, when discard is set (reset).
func (c *SimConn) EndRead(err error, discard bool) {
	c.mu.Lock()
	if discard {
		c.rbuf = nil
	}
	c.rerr = err
	c.wakeReaderLocked()
	c.mu.Unlock()
}

// EndReadWithData is EndRead where the final bytes and err come from one Read call.
func (c *SimConn) EndReadWithData(err error) {
	c.mu.Lock()
	c.rerr = err
	c.errWithData = true
	c.wakeReaderLocked()
	c.mu.Unlock()
}

// EndSeen reports whether a Read has returned the end condition.
func (c *SimConn) EndSeen() bool {
	c.mu.Lock()
	defer c.mu.Unlock()
	return c.ErrSeen
}

// ReaderParked reports whether the library is blocked in Read right now.
func (c *SimConn) ReaderParked() bool {
	c.mu.Lock()
	defer c.mu.Unlock()
	return c.inRead
}

// Unread returns the number of delivered bytes not yet read.
func (c *SimConn) Unread() int {
	c.mu.Lock()
	defer c.mu.Unlock()
	return len(c.rbuf)
}

func (c *SimConn) Write(p []byte) (int, error) {
	c.mu.Lock()
	if c.closed {
		c.mu.Unlock()
		return 0, net.ErrClosed
	}
	rec := WriteRec{Seq: c.e.Seq(), Start: len(c.wlog), At: time.Since(c.start)}
	f := c.wfault
	if f != nil {
		c.wfault = nil
		k := f.After
		if k > len(p) {
			k = len(p)
		}
		switch f.Kind {
		case "stall":
			c.wlog = append(c.wlog, p[:k]...)
			c.stalled = true
			c.resume = make(chan struct{})
			ch := c.resume
			c.e.ParkBegin(true)
			c.mu.Unlock()
			c.e.Fault("write-stall")
			c.e.Poke()
			if dl := c.wdeadlineGet(); !dl.IsZero() {
				// a write deadline is armed: the stall ends at the deadline at the latest
				until := time.Until(dl)
				if until < 0 {
					until = 0
				}
				tm := time.NewTimer(until)
				select {
				case <-ch:
					tm.Stop()
				case <-tm.C:
					c.mu.Lock()
					if c.resume == ch {
						c.resume = nil
						c.e.ParkEnd(true)
					}
					c.stalled = false
					rec.N = k
					rec.Err = "write deadline exceeded"
					rec.End = time.Since(c.start)
					c.Writes = append(c.Writes, rec)
					c.mu.Unlock()
					c.e.Fault("write-timeout")
					c.e.Poke()
					return k, os.ErrDeadlineExceeded
				}
			} else {
				<-ch
			}
			c.mu.Lock()
			c.stalled = false
			if c.closed {
				rec.N = k
				rec.Err = "closed during stall"
				c.Writes = append(c.Writes, rec)
				c.mu.Unlock()
				return k, net.ErrClosed
			}
			c.wlog = append(c.wlog, p[k:]...)
			rec.N = len(p)
			rec.End = time.Since(c.start)
			c.Writes = append(c.Writes, rec)
			c.mu.Unlock()
			c.e.Poke()
			return len(p), nil
		default:
			c.wlog = append(c.wlog, p[:k]...)
			rec.N = k
			var err error
			switch f.Kind {
			case "temp":
				err = &simNetErr{msg: "sim: temporary write error", temp: true}
			case "perm":
				err = &simNetErr{msg: "sim: permanent write error", temp: false}
			default:
				err = errors.New("sim: plain write error")
			}
			rec.Err = err.Error()
			rec.End = rec.At
			c.Writes = append(c.Writes, rec)
			c.mu.Unlock()
			c.e.Fault("write-" + f.Kind)
			c.e.Poke()
			return k, err
		}
	}
	if dl := c.wdeadline; !dl.IsZero() && !time.Now().Before(dl) {
		// like a socket: a write whose deadline has already passed fails at once
		rec.N = 0
		rec.Err = "write deadline exceeded"
		rec.End = rec.At
		c.Writes = append(c.Writes, rec)
		c.mu.Unlock()
		c.e.Fault("write-timeout")
		c.e.Poke()
		return 0, os.ErrDeadlineExceeded
	}
	c.wlog = append(c.wlog, p...)
	rec.N = len(p)
	rec.End = rec.At
	c.Writes = append(c.Writes, rec)
	c.mu.Unlock()
	c.e.Poke()
	return len(p), nil
}

// ArmWriteFault arms a one-shot fault for the next Write.
func (c *SimConn) ArmWriteFault(f *WriteFault) {
	c.mu.Lock()
	c.wfault = f
	c.mu.Unlock()
}

// Stalled reports whether a Write is parked mid-way.
func (c *SimConn) Stalled() bool {
	c.mu.Lock()
	defer c.mu.Unlock()
	return c.stalled
}

// Resume releases a stalled Write.
func (c *SimConn) Resume() {
	c.mu.Lock()
	ch := c.resume
	c.resume = nil
	if ch != nil {
		c.e.ParkEnd(true)
	}
	c.mu.Unlock()
	if ch != nil {
		close(ch)
	}
}

// Written returns a copy of everything the library wrote so far.
func (c *SimConn) Written() []byte {
	c.mu.Lock()
	defer c.mu.Unlock()
	return append([]byte{}, c.wlog...)
}

// TakeWritten returns the bytes written since the previous call.
func (c *SimConn) TakeWritten() []byte {
	c.mu.Lock()
	defer c.mu.Unlock()
	b := append([]byte{}, c.wlog[c.wconsumed:]...)
	c.wconsumed = len(c.wlog)
	return b
}

func (c *SimConn) WriteRecs() []WriteRec {
	c.mu.Lock()
	defer c.mu.Unlock()
	return append([]WriteRec{}, c.Writes...)
}

func (c *SimConn) Close() error {
	c.mu.Lock()
	c.CloseCount++
	first := !c.closed
	if first {
		c.closed = true
		c.CloseAt = time.Since(c.start)
		c.CloseSeq = c.e.Seq()
	}
	ch := c.resume
	c.resume = nil
	if ch != nil {
		c.e.ParkEnd(true)
	}
	c.wakeReaderLocked()
	c.mu.Unlock()
	if ch != nil {
		close(ch)
	}
	if first {
		c.e.Poke()
	}
	return nil
}

// CloseWrite is what TCP, TLS and unix connections offer besides Close: the sending side is shut
// down, the connection stays. The library closes connections with Close; a half-close is recorded,
// it does not count as "closed".
func (c *SimConn) CloseWrite() error {
	c.mu.Lock()
	c.HalfClosed++
	c.mu.Unlock()
	return nil
}

// Closed reports whether the library closed the transport.
func (c *SimConn) Closed() bool {
	c.mu.Lock()
	defer c.mu.Unlock()
	return c.closed
}

func (c *SimConn) ClosedAt() (bool, time.Duration) {
	c.mu.Lock()
	defer c.mu.Unlock()
	return c.closed, c.CloseAt
}

// LocalAddr can be made a scheduling point: when armed, the (first) caller parks until released.
func (c *SimConn) LocalAddr() net.Addr {
	c.mu.Lock()
	if c.laArm {
		c.laArm = false
		ch := make(chan struct{})
		c.laGate = ch
		c.e.ParkBegin(true)
		c.mu.Unlock()
		<-ch
		return c.laddr
	}
	c.mu.Unlock()
	return c.laddr
}

// ArmLocalAddrPark makes the next LocalAddr call park; ReleaseLocalAddr lets it go on.
func (c *SimConn) ArmLocalAddrPark() {
	c.mu.Lock()
	c.laArm = true
	c.mu.Unlock()
}

func (c *SimConn) ReleaseLocalAddr() bool {
	c.mu.Lock()
	c.laArm = false
	ch := c.laGate
	c.laGate = nil
	if ch != nil {
		c.e.ParkEnd(true)
	}
	c.mu.Unlock()
	if ch != nil {
		close(ch)
		return true
	}
	return false
}
func (c *SimConn) RemoteAddr() net.Addr { return c.raddr }
func (c *SimConn) SetDeadline(t time.Time) error {
	c.SetReadDeadline(t)
	return c.SetWriteDeadline(t)
}
func (c *SimConn) SetReadDeadline(t time.Time) error {
	c.mu.Lock()
	c.rdeadline = t
	// a deadline applies to a Read that is already waiting, too: let it look again
	c.wakeReaderLocked()
	c.mu.Unlock()
	return nil
}
func (c *SimConn) SetWriteDeadline(t time.Time) error {
	c.mu.Lock()
	c.wdeadline = t
	c.mu.Unlock()
	return nil
}

func (c *SimConn) wdeadlineGet() time.Time {
	c.mu.Lock()
	defer c.mu.Unlock()
	return c.wdeadline
}

var _ net.Conn = (*SimConn)(nil)

// ---------------------------------------------------------------- listener

type acceptItem struct {
	c   net.Conn
	err error
}

// SimListener is a net.Listener fed by the engine.
type SimListener struct {
	e       *Env
	mu      sync.Mutex
	q       []acceptItem
	wait    chan struct{}
	closed  bool
	Accepts int
	parked  bool
	addr    net.Addr
}

func newSimListener(e *Env) *SimListener {
	return &SimListener{e: e, wait: make(chan struct{}, 1), addr: &net.TCPAddr{IP: net.IPv4(10, 0, 0, 1), Port: 3868}}
}

func (l *SimListener) Accept() (net.Conn, error) {
	for {
		l.mu.Lock()
		if len(l.q) > 0 {
			it := l.q[0]
			l.q = l.q[1:]
			l.Accepts++
			l.mu.Unlock()
			l.e.Poke()
			return it.c, it.err
		}
		if l.closed {
			l.mu.Unlock()
			return nil, net.ErrClosed
		}
		l.parked = true
		l.e.ParkBegin(false)
		l.mu.Unlock()
		<-l.wait
	}
}

func (l *SimListener) push(it acceptItem) {
	l.mu.Lock()
	l.q = append(l.q, it)
	l.wakeLocked()
	l.mu.Unlock()
}

func (l *SimListener) wakeLocked() {
	if l.parked {
		l.parked = false
		l.e.ParkEnd(false)
		l.wait <- struct{}{}
	}
}

// Connect hands a new connection to Accept.
func (l *SimListener) Connect(c net.Conn) { l.push(acceptItem{c: c}) }

// FailAccept makes the next Accept return a temporary error.
func (l *SimListener) FailAccept() {
	l.push(acceptItem{err: &simNetErr{msg: "sim: accept: too many open files", temp: true}})
}

// FailAcceptTimeout: a temporary accept error that also reports Timeout() (EAGAIN-like).
func (l *SimListener) FailAcceptTimeout() {
	l.push(acceptItem{err: &simNetErr{msg: "sim: accept: resource temporarily unavailable", temp: true, timeout: true}})
}

// Pending is the number of queued accept results.
func (l *SimListener) Pending() int {
	l.mu.Lock()
	defer l.mu.Unlock()
	return len(l.q)
}

func (l *SimListener) Parked() bool {
	l.mu.Lock()
	defer l.mu.Unlock()
	return l.parked
}

func (l *SimListener) Close() error {
	l.mu.Lock()
	l.closed = true
	l.wakeLocked()
	l.mu.Unlock()
	return nil
}

func (l *SimListener) Addr() net.Addr { return l.addr }

// ---------------------------------------------------------------- plain reader / writer

// SimReader is an io.Reader that returns a byte string in planned fragments.
type SimReader struct {
	data        []byte
	pos         int
	frags       []int // sizes of successive read results (0 = a (0,nil) read); then whatever is asked
	fi          int
	endErr      error // error at end of data (io.EOF for a clean end)
	eofWithData bool  // deliver the final bytes together with endErr
	Calls       int
	CallsAfter  int // Read calls made after `mark` bytes had been consumed
	mark        int
}

func (r *SimReader) Read(p []byte) (int, error) {
	r.Calls++
	if r.mark > 0 && r.pos >= r.mark {
		r.CallsAfter++
	}
	if len(p) == 0 {
		return 0, nil
	}
	rem := len(r.data) - r.pos
	if rem == 0 {
		return 0, r.endErr
	}
	n := rem
	if r.fi < len(r.frags) {
		n = r.frags[r.fi]
		r.fi++
		if n == 0 {
			return 0, nil
		}
	}
	if n > rem {
		n = rem
	}
	if n > len(p) {
		n = len(p)
	}
	copy(p, r.data[r.pos:r.pos+n])
	r.pos += n
	if r.pos == len(r.data) && r.eofWithData {
		return n, r.endErr
	}
	return n, nil
}

var _ io.Reader = (*SimReader)(nil)

// ---------------------------------------------------------------- addresses

var simAddrs = []struct{ ip string }{{"10.1.2.3"}, {"127.0.0.1"}, {"2001:db8::1"}, {"::1"}, {"192.168.77.5"}}

// multiAddr is a multi-homed endpoint; it prints the way an SCTP address does
// ("10.0.0.1/10.0.0.2:3868", "[2001:db8::1]/[2001:db8::2]:3868").
type multiAddr struct {
	ips  []net.IP
	port int
}

func (a *multiAddr) Network() string { return "sctp" }
func (a *multiAddr) String() string {
	var sb strings.Builder
	for i, ip := range a.ips {
		if i > 0 {
			sb.WriteByte('/')
		}
		if ip.To4() != nil {
			sb.WriteString(ip.String())
		} else {
			sb.WriteString("[" + ip.String() + "]")
		}
	}
	fmt.Fprintf(&sb, ":%d", a.port)
	return sb.String()
}

var simMultiAddrs = [][]string{
	{"10.1.2.3", "10.1.2.4"},
	{"2001:db8::1", "2001:db8::2"},
	{"10.9.9.9", "2001:db8::9"},
	{"2001:db8::7", "::1"},
	{"2001:db8::a", "2001:db8::b", "192.168.5.5"},
}

// drawLocalAddr draws a local endpoint: usually one address, sometimes a multi-homed one.
func drawLocalAddr(t *Tape, port int) net.Addr {
	if t.Chance(1, 5) {
		a := &multiAddr{port: port}
		for _, s := range simMultiAddrs[t.Draw(len(simMultiAddrs))] {
			a.ips = append(a.ips, net.ParseIP(s))
		}
		return a
	}
	return drawAddr(t, port)
}

// endpointIPs lists the addresses of an endpoint, in canonical text form.
func endpointIPs(a net.Addr) []string {
	switch x := a.(type) {
	case *net.TCPAddr:
		return []string{x.IP.String()}
	case *multiAddr:
		var out []string
		for _, ip := range x.ips {
			out = append(out, ip.String())
		}
		return out
	}
	return nil
}

// sharesAddr reports whether got contains an address of the endpoint.
func sharesAddr(got []string, a net.Addr) bool {
	for _, ip := range endpointIPs(a) {
		if containsStr(got, ip) {
			return true
		}
	}
	return false
}

func drawAddr(t *Tape, port int) *net.TCPAddr {
	i := t.Draw(len(simAddrs))
	return &net.TCPAddr{IP: net.ParseIP(simAddrs[i].ip), Port: port}
}
