package dsim

import (
	"fmt"
)

var smReal = []string{"sm.StateMachine (New, HandleFunc, HandleIdx, handshakeOK)", "sm.handleCER / successCEA / errorCEA / handleDWR / handleDWA / handleCEA", "smparser (CER, CEA, DWR, DWA, Application), smpeer metadata", "sm.Client handshake / watchdog / dwr / makeCER (client scenarios)", "diam.Server.Serve, conn.serve, ServeMux, Message.Answer, codec, dict.Default"}
var smStub = []string{"transport: SimConn / SimListener", "peers: scripted with the reference encoder (own CER/CEA/DWR/DWA builders, RFC 6733 numbers)", "clock: testing/synctest fake clock, advanced by the engine to drawn instants around each deadline", "application handlers: instrumented harness code"}

func init() {
	register(&Property{
		ID: "C10", Level: "exploration",
		Rule: "server side: a state machine serves 1-2 connections; each peer history is a drawn sequence (length 1-12, bursts and fragments) over {acceptable CER, rejected CER, retransmitted CER, DWR, application requests/answers of several applications, CEA}, with the CEA write failing at drawn points; application handlers are registered by short name, by index and as catch-all, and registrations of CER/CEA/DWR keys are attempted; a reference gate decides, per message, which handler may run. " +
			"client side: a scripted server sends application messages before, instead of and after its CEA; one Client dials a second connection while the first stays in use, with CEAs arriving on the first and application messages on the second. non-trivial = the history contains an application message both before and after a CER; distinct = hash of the item-kind sequence. Thorough: all server-side histories up to length 4 over 9 item kinds.",
		Real: smReal, Stubbed: smStub,
		Assume: []string{"handshaken (server side) = a success CEA was written without error"},
		Scenarios: []*Scenario{
			{Name: "server-gate", Weight: 3, Bubble: true, Run: func(e *Env) { smaRun(e, "C10") }},
			{Name: "client-gate", Weight: 2, Bubble: true, Run: c10Client},
			{Name: "client-two-connections", Weight: 1, Bubble: true, Run: c10ClientTwo},
			{Name: "sweep-histories", Bubble: true, Run: smaSweepHist, SweepN: smaSweepHistN, Exhaustive: true,
				SweepNote: "all sequences of length <= 4 over {acceptable CER, CER rejected for no common application, CER rejected for security, retransmitted CER, DWR, application request (name-registered), application request (index-registered), application answer, CER whose CEA write fails}"},
		},
		MustProbes: []string{"handshake-ok", "cer-rejected", "cea-write-failed", "app-handler-after-handshake", "refused-registration", "cer-retransmission-ignored", "app-before-cea-blocked", "app-behind-cea-dispatched", "cea-on-other-connection-during-dial", "second-connection-handshaken"},
	})
	register(&Property{
		ID: "C11", Level: "fault_enumeration",
		Rule: "CERs are generated from a spec {Origin-Host present, Origin-Realm present, Inband-Security-Id absent/0/non-zero, a sequence of Acct-/Auth-/Vendor-Specific-Application-Id entries over supported / unsupported / wrong-type / relay ids, Vendor-Id first or last inside groups} against settings with 0-2 configured host addresses and IPv4/IPv6/loopback local endpoints, with CEA write faults; " +
			"the sweep enumerates every presence combination x every entry sequence up to length 2 (quick) or 3 (thorough) over 24 entry variants; an independent acceptance predicate over the spec and an application table parsed from the dictionary XML decide the expected CEA, metadata and close. non-trivial = the CER has at least one application entry; distinct = hash of the spec",
		Real: smReal, Stubbed: smStub,
		Assume: []string{"application id 0 is not generated (declared without a type in the base dictionary)", "the application table is read from the XML embedded in /repo/diam/dict/default.go"},
		Scenarios: []*Scenario{
			{Name: "server-cer", Weight: 1, Bubble: true, Run: func(e *Env) { smaRun(e, "C11") }},
			{Name: "sweep-cer", Bubble: true, Run: smaSweepCER, SweepN: smaSweepCERN, QuickSweep: true, Exhaustive: true,
				SweepNote: "12 presence combinations x all entry sequences up to length 2 (quick) / 3 (thorough) over 24 entry variants (6 AVP forms x 4 id classes)"},
		},
		MustProbes: []string{"handshake-ok", "cer-rejected", "cea-write-failed"},
	})
}

func init() {
	register(&Property{
		ID: "C12", Level: "exploration",
		Rule: "each run draws a client configuration (MaxRetransmits 0-4, RetransmitInterval 10 ms / 1 s / 3 s, advertised applications, configured or local host addresses) and a peer script: answer the k-th CER (or never) with a CEA of one of 10 kinds after a delay placed relative to the retransmit deadline (0, half, -1 ns, on it, +1 ns, after the whole budget, random), an application answer before / directly behind the CEA, disconnect (EOF/RST) at a drawn instant, a stalled CER write, then 0-3 extra CEAs (duplicate success, late failures) interleaved with application answers; the fake clock is advanced from event to event. " +
			"non-trivial = every run (each has a script); distinct = hash of (configuration classes, script kinds, observed event-kind sequence)",
		Real: smReal, Stubbed: smStub,
		Assume: []string{"the first CEA delivered before the dial returns decides; exact ties with the dial's return accept either outcome", "retransmission spacing is measured from the return of one CER write to the start of the next"},
		Scenarios: []*Scenario{
			{Name: "dial", Weight: 1, Bubble: true, Run: c12Run},
			{Name: "sweep-dial", Bubble: true, Run: c12Sweep, SweepN: c12SweepN, QuickSweep: true, Exhaustive: true,
				SweepNote: "MaxRetransmits 0..3 x answer the k-th CER for every k (or never) x 14 CEA kinds x 6 delays relative to the retransmit deadline (0, half, -1 ns, +1 ns, on it, after the whole budget), each followed by a duplicate success CEA, a failing CEA and an application answer: 1176 cases"},
		},
		MustProbes: []string{"handshake-success", "handshake-timeout", "extra-cea-survived", "write-stall", "peer-eof", "peer-rst"},
	})
}

func init() {
	register(&Property{
		ID: "C13", Level: "exploration",
		Rule: "client half: after a scripted successful handshake the peer follows a per-cycle plan drawn from {answer at once / at half / 1 ns before the deadline, answer only the j-th retransmission, answer with a failure code then success, answer every transmission one interval late (surplus answer), answer late, stay silent} for up to 22 watchdog cycles, budgets MaxRetransmits 0-4, intervals 10 ms-30 s; a reference timeline computed from the observed DWR instants and DWA delivery instants gives the expected retransmissions and close instant. " +
			"answering half: handshaken and not-yet-handshaken peers send well-formed and malformed DWRs to a state machine (server world). non-trivial = every run; distinct = hash of (budget, plan kinds, event kinds)",
		Real: smReal, Stubbed: smStub,
		Assume: []string{"a DWA delivered exactly on a window edge is a tie and that cycle is not judged", "no scheduling point is placed between a DWR write and the wait that follows it (the non-blocking ack hand-off there is outside the quantifier)"},
		Scenarios: []*Scenario{
			{Name: "client-watchdog", Weight: 3, Bubble: true, Run: func(e *Env) { c13Client(e, false) }},
			{Name: "answering", Weight: 1, Bubble: true, Run: func(e *Env) { smaRun(e, "C13") }},
			{Name: "sweep-plans", Bubble: true, Run: c13Sweep, SweepN: c13SweepN, QuickSweep: true, Exhaustive: true,
				SweepNote: "MaxRetransmits 0..2 x every sequence of 1-3 watchdog cycles over 8 per-cycle peer plans (ack at 0 / half / 1 ns before the deadline, ack only the 1st retransmission, failure code then success, answer every transmission one interval late, answer late, silence): 1 752 cases"},
		},
		MustProbes: []string{"cycle-acked", "silent-peer-closed", "spared-20-cycles", "dwa-checked", "dwa-surplus", "dwa-failure-code", "client-role-dwa", "app-write-stalled", "slow-dwr-writes", "dwr-write-temp-error"},
	})
}

// ---------------------------------------------------------------- C11 sweep

var sweepEntryForms = []struct {
	kind string
	vf   bool
}{{"auth", false}, {"acct", false}, {"vs-auth", true}, {"vs-auth", false}, {"vs-acct", true}, {"vs-acct", false}}

func sweepEntry(i int) appEntry {
	f := sweepEntryForms[i/4]
	en := appEntry{kind: f.kind, vendorFirst: f.vf}
	en.id = entryID(en.typ(), i%4, 0)
	return en
}

func seqCount(alpha, maxLen int) int {
	n, p := 0, 1
	for l := 0; l <= maxLen; l++ {
		n += p
		p *= alpha
	}
	return n
}

func decodeSeq(k, alpha int) []int {
	l, p := 0, 1
	for k >= p {
		k -= p
		p *= alpha
		l++
	}
	seq := make([]int, l)
	for i := range seq {
		seq[i] = k % alpha
		k /= alpha
	}
	return seq
}

func smaSweepCERN(thorough bool) int {
	if thorough {
		return 12 * seqCount(24, 3)
	}
	return 12 * seqCount(24, 2)
}

func smaSweepCER(e *Env) {
	k := e.Case
	pres := k % 12
	seq := decodeSeq(k/12, 24)
	spec := cerSpec{host: pres&1 == 0, realm: pres&2 == 0, inband: pres / 4, hbh: uint32(e.Case + 1), e2e: 77}
	for _, s := range seq {
		spec.entries = append(spec.entries, sweepEntry(s))
	}
	e.TrustWait = true
	e.NonTrivial()
	if _, err := loadAppTable(); err != nil {
		e.Harness("application table: %v", err)
	}
	w := newSmaWorld(e, "C11")
	defer w.teardown()
	c := &smaConn{name: "c0"}
	c.sc = newSimConn(e, "c0", drawAddr(e.T, 3868), drawAddr(e.T, 41000))
	it := &smaItem{kind: "cer", spec: spec}
	it.msg = spec.msg("peer0.example", "example")
	it.bytes = it.msg.Bytes()
	app := &smaItem{kind: "app-req"}
	app.msg = RefMsg{Cmd: cmdCC, App: 4, Flags: 0x80, HbH: 9, E2E: 9, AVPs: []RefAVP{{Code: avpSessionID, Flags: 0x40, Data: marker(0, 1, 16, 'x')}}}
	app.bytes = app.msg.Bytes()
	c.items = []*smaItem{it, app}
	w.conns = append(w.conns, c)
	w.lis.Connect(c.sc)
	e.Quiesce()
	e.Act("cer", "%s", specString(spec))
	if !w.step(0, 1, false) {
		return
	}
	w.step(0, 1, false)
}

// ---------------------------------------------------------------- C10 sweep

const smaHistKinds = 9

func smaSweepHistN(thorough bool) int { return seqCount(smaHistKinds, 4) }

func smaSweepHist(e *Env) {
	seq := decodeSeq(e.Case, smaHistKinds)
	e.TrustWait = true
	e.NonTrivial()
	if _, err := loadAppTable(); err != nil {
		e.Harness("application table: %v", err)
	}
	w := newSmaWorld(e, "C10")
	defer w.teardown()
	c := &smaConn{name: "c0"}
	c.sc = newSimConn(e, "c0", drawAddr(e.T, 3868), drawAddr(e.T, 41000))
	var last *smaItem
	for k, s := range seq {
		it := &smaItem{}
		mkCER := func(sp cerSpec) {
			it.kind = "cer"
			sp.hbh, sp.e2e = uint32(k+1), uint32(k+100)
			it.spec = sp
			it.msg = sp.msg("peer0.example", "example")
			last = it
		}
		ok := cerSpec{host: true, realm: true, entries: []appEntry{{kind: "auth", id: 4}}}
		switch s {
		case 0:
			mkCER(ok)
		case 1:
			mkCER(cerSpec{host: true, realm: true, entries: []appEntry{{kind: "auth", id: 999}}})
		case 2:
			sp := ok
			sp.inband = 2
			mkCER(sp)
		case 3:
			if last != nil {
				it.kind, it.spec, it.msg = "cer", last.spec, last.msg
			} else {
				mkCER(ok)
			}
		case 4:
			it.kind, it.dwrOK = "dwr", true
			it.msg = RefMsg{Cmd: cmdDW, Flags: 0x80, HbH: uint32(k + 1), E2E: 5, AVPs: identAVPs("peer0.example", "example", true, true)}
		case 5, 6, 7:
			app, code := uint32(4), uint32(cmdCC)
			if s == 6 {
				app, code = 0, cmdAC
			}
			it.kind = "app-req"
			m := RefMsg{Cmd: code, App: app, Flags: 0x80, HbH: uint32(k + 1), E2E: 6}
			if s == 7 {
				it.kind = "app-ans"
				m.Flags = 0
			}
			m.AVPs = []RefAVP{{Code: avpSessionID, Flags: 0x40, Data: marker(0, k, 16, 'x')}}
			it.msg = m
		case 8:
			mkCER(ok)
			it.failWrite, it.failAfter = "perm", 10
		}
		it.bytes = it.msg.Bytes()
		c.items = append(c.items, it)
	}
	w.conns = append(w.conns, c)
	w.lis.Connect(c.sc)
	e.Quiesce()
	e.Act("history", "%v", seq)
	for i := range c.items {
		if !w.step(0, 1, false) {
			return
		}
		_ = i
	}
	_ = fmt.Sprint
}
