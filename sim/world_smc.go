package dsim

import (
	"bytes"
	"context"
	"errors"
	"fmt"
	"io"
	"net"
	"sort"
	"strings"
	"sync"
	"time"

	"github.com/fiorix/go-diameter/v4/diam"
	"github.com/fiorix/go-diameter/v4/diam/avp"
	"github.com/fiorix/go-diameter/v4/diam/datatype"
	"github.com/fiorix/go-diameter/v4/diam/sm"
	"github.com/fiorix/go-diameter/v4/diam/sm/smpeer"
)

// World B: sm.Client.NewConn over a SimConn against a scripted server, on the
// fake clock. Decides C12, the client half of C13, the client side of C10 and
// the watchdog-goroutine clause of C14.

const smcHost = "cli.dsim.example"
const smcRealm = "dsim.example"

type smcObs struct {
	msg     RefMsg
	raw     []byte
	at, end time.Duration // write entered / returned (fake time since start)
}

type smcOut struct {
	at    time.Duration
	bytes []byte
	what  string
	seq   int
}

type smcWorld struct {
	e          *Env
	sc         *SimConn
	cli        *sm.Client
	mach       *sm.StateMachine
	R          int
	I, W       time.Duration
	watchdog   bool
	cfgAddrs   []string
	advertised map[appKey]bool

	start      time.Time
	mu         sync.Mutex
	dialDone   bool
	dialErr    error
	dialAt     time.Duration
	conn       diam.Conn
	enters     []int         // markers seen by the application handler
	enterLocal []string      // local address of the connection each of them arrived on
	noCatchAll bool          // the application registered its handler by command name only
	parkSeq    int           // the application handler parks on the message with this marker (0 = never)
	gate       chan struct{} // the parked handler
	metaOK     []bool

	seenWrites int
	obs        []smcObs
	outbox     []smcOut
	outSeq     int
	delivered  []smcOut  // what was delivered, with the delivery instant in .at
	stuck      bool      // the clock could not be advanced (a goroutine is blocked on a library lock)
	target     *smcWorld // when set, the application handler records into this world instead
	shared     *smcWorld // a redial shares the Client (and its application handler) with this world
}

func (w *smcWorld) now() time.Duration { return time.Since(w.start) }

func newSmcWorld(e *Env, wd bool) *smcWorld {
	t := e.T
	w := &smcWorld{e: e, watchdog: wd, advertised: map[appKey]bool{}}
	w.sc = newSimConn(e, "cli", drawLocalAddr(t, 50000), drawAddr(t, 3868))
	if t.Chance(1, 5) {
		w.sc.MaxRead = t.Range(1, 50) // the transport hands over what the peer sent in small pieces
		e.Probe("client-reads-in-small-pieces")
	}
	settings := &sm.Settings{
		OriginHost:  smcHost,
		OriginRealm: smcRealm,
		VendorID:    13,
		ProductName: "dsim-client",
	}
	if t.Chance(1, 3) {
		settings.OriginStateID = 99
	}
	for i, n := 0, t.Draw(3); i < n; i++ {
		ip := net.IPv4(172, 20, byte(i), 9)
		settings.HostIPAddresses = append(settings.HostIPAddresses, datatype.Address(ip))
		w.cfgAddrs = append(w.cfgAddrs, ip.String())
	}
	sort.Strings(w.cfgAddrs)
	if len(settings.HostIPAddresses) == 1 && t.Chance(1, 2) {
		// the deprecated single-address field means the same thing
		settings.HostIPAddress, settings.HostIPAddresses = settings.HostIPAddresses[0], nil
		e.Probe("deprecated-host-ip-address-field")
	}
	w.mach = sm.New(settings)
	// the application's handler: usually a catch-all, sometimes only the one command it expects
	hname := "ALL"
	if t.Chance(1, 3) {
		hname = "CCA"
		w.noCatchAll = true
	}
	w.mach.HandleFunc(hname, func(c diam.Conn, m *diam.Message) {
		seq := -1
		if len(m.AVP) > 0 {
			if _, s, ok := parseMarker(m.AVP[0].Data.Serialize()); ok {
				seq = s
			}
		}
		_, ok := smpeer.FromContext(c.Context())
		local := ""
		if la := c.LocalAddr(); la != nil {
			local = la.String()
		}
		dst := w
		if w.target != nil {
			dst = w.target // the Client was handed to a later world (switched-on watchdog re-dial)
		}
		dst.mu.Lock()
		dst.enters = append(dst.enters, seq)
		dst.metaOK = append(dst.metaOK, ok)
		dst.enterLocal = append(dst.enterLocal, local)
		var gate chan struct{}
		if dst.parkSeq != 0 && seq == dst.parkSeq {
			gate = make(chan struct{})
			dst.gate = gate
			e.ParkBegin(true)
		}
		dst.mu.Unlock()
		if gate != nil {
			<-gate // the application's handler blocks until the engine lets it go
		}
	})
	w.R = t.Range(0, 4)
	w.I = []time.Duration{time.Second, 10 * time.Millisecond, 3 * time.Second}[t.Draw(3)]
	w.W = []time.Duration{5 * time.Second, 30 * time.Second, w.I, 700 * time.Millisecond}[t.Draw(4)]
	w.cli = &sm.Client{
		Handler:            w.mach,
		MaxRetransmits:     uint(w.R),
		RetransmitInterval: w.I,
		EnableWatchdog:     wd,
		WatchdogInterval:   w.W,
	}
	if wd && t.Chance(1, 3) {
		// a watchdog stream only means something on a multi-stream transport; elsewhere it is ignored
		w.cli.WatchdogStream = uint(t.Range(1, 15))
		e.Probe("watchdog-stream-on-single-stream-transport")
	}
	if w.I == time.Second && t.Chance(1, 3) {
		w.cli.RetransmitInterval = 0 // unset: the documented default is one second
		e.Probe("retransmit-interval-left-at-default")
	}
	if w.W == 5*time.Second && t.Chance(1, 2) {
		w.cli.WatchdogInterval = 0 // unset: the documented default is five seconds
		e.Probe("watchdog-interval-left-at-default")
	}
	w.drawApps()
	w.start = time.Now()
	e.Act("client", "R=%d I=%v W=%v watchdog=%v apps=%d addrs=%d", w.R, w.I, w.W, wd, len(w.advertised), len(w.cfgAddrs))
	return w
}

// drawApps (re)configures the applications the Client advertises; between two dials of the
// same Client the application may do that again.
func (w *smcWorld) drawApps() {
	e, t := w.e, w.e.T
	_ = e
	w.advertised = map[appKey]bool{}
	w.cli.AuthApplicationID, w.cli.AcctApplicationID, w.cli.VendorSpecificApplicationID, w.cli.SupportedVendorID = nil, nil, nil, nil
	// advertised applications
	switch t.Pick(3, 2, 2, 1, 1) {
	case 4:
		// an application the dictionary declares under both types, advertised under both
		w.cli.AuthApplicationID = []*diam.AVP{diam.NewAVP(avp.AuthApplicationID, avp.Mbit, 0, datatype.Unsigned32(4)), diam.NewAVP(avp.AuthApplicationID, avp.Mbit, 0, datatype.Unsigned32(9001))}
		w.cli.AcctApplicationID = []*diam.AVP{diam.NewAVP(avp.AcctApplicationID, avp.Mbit, 0, datatype.Unsigned32(9001))}
		w.advertised[appKey{4, "auth"}], w.advertised[appKey{9001, "auth"}], w.advertised[appKey{9001, "acct"}] = true, true, true
	case 0:
		w.cli.AuthApplicationID = []*diam.AVP{diam.NewAVP(avp.AuthApplicationID, avp.Mbit, 0, datatype.Unsigned32(4))}
		w.advertised[appKey{4, "auth"}] = true
	case 1:
		w.cli.AuthApplicationID = []*diam.AVP{diam.NewAVP(avp.AuthApplicationID, avp.Mbit, 0, datatype.Unsigned32(4)), diam.NewAVP(avp.AuthApplicationID, avp.Mbit, 0, datatype.Unsigned32(16777251))}
		w.cli.AcctApplicationID = []*diam.AVP{diam.NewAVP(avp.AcctApplicationID, avp.Mbit, 0, datatype.Unsigned32(3))}
		w.advertised[appKey{4, "auth"}], w.advertised[appKey{16777251, "auth"}], w.advertised[appKey{3, "acct"}] = true, true, true
	case 2:
		w.cli.AcctApplicationID = []*diam.AVP{diam.NewAVP(avp.AcctApplicationID, avp.Mbit, 0, datatype.Unsigned32(3))}
		w.advertised[appKey{3, "acct"}] = true
	default:
		w.cli.VendorSpecificApplicationID = []*diam.AVP{diam.NewAVP(avp.VendorSpecificApplicationID, avp.Mbit, 0, &diam.GroupedAVP{AVP: []*diam.AVP{
			diam.NewAVP(avp.VendorID, avp.Mbit, 0, datatype.Unsigned32(10415)),
			diam.NewAVP(avp.AuthApplicationID, avp.Mbit, 0, datatype.Unsigned32(16777251))}})}
		sv := uint32(10415)
		if t.Chance(1, 2) {
			sv = 13 // the Supported-Vendor-Id list need not name the vendor of every vendor-specific application
		}
		w.cli.SupportedVendorID = []*diam.AVP{diam.NewAVP(avp.SupportedVendorID, avp.Mbit, 0, datatype.Unsigned32(sv))}
		w.advertised[appKey{16777251, "auth"}] = true
	}
}

func (w *smcWorld) dial() {
	go func() {
		c, err := w.cli.NewConn(w.sc, "peer:3868")
		w.mu.Lock()
		w.dialDone, w.dialErr, w.conn = true, err, c
		w.dialAt = w.now()
		w.mu.Unlock()
		w.e.Poke()
	}()
}

// collect picks up what the client wrote (one transport write per message).
func (w *smcWorld) collect() []smcObs {
	recs := w.sc.WriteRecs()
	full := w.sc.Written()
	var fresh []smcObs
	for _, r := range recs[w.seenWrites:] {
		if r.Err != "" {
			continue
		}
		raw := full[r.Start : r.Start+r.N]
		rm, err := refParse(raw)
		if err != nil {
			w.e.Fail(w.e.Prop+"/unparsable-output", "the client wrote bytes the reference parser rejects: %v", err)
			continue
		}
		o := smcObs{msg: rm, raw: raw, at: r.At, end: r.End}
		w.obs = append(w.obs, o)
		fresh = append(fresh, o)
	}
	w.seenWrites = len(recs)
	return fresh
}

func (w *smcWorld) schedule(d time.Duration, b []byte, what string) {
	w.outSeq++
	w.outbox = append(w.outbox, smcOut{at: w.now() + d, bytes: b, what: what, seq: w.outSeq})
	sort.SliceStable(w.outbox, func(i, j int) bool {
		if w.outbox[i].at != w.outbox[j].at {
			return w.outbox[i].at < w.outbox[j].at
		}
		return w.outbox[i].seq < w.outbox[j].seq
	})
}

// flush delivers everything that is due, coalescing items due at the same instant into one segment.
func (w *smcWorld) flush() {
	now := w.now()
	var seg []byte
	n := 0
	for n < len(w.outbox) && w.outbox[n].at <= now {
		o := w.outbox[n]
		if o.what == "eof" || o.what == "rst" {
			if len(seg) > 0 {
				w.sc.Deliver(seg)
				seg = nil
			}
			if o.what == "eof" {
				w.sc.EndRead(io.EOF, false)
				w.e.Fault("peer-eof")
			} else {
				w.sc.EndRead(errSimReset, true)
				w.e.Fault("peer-rst")
			}
		} else {
			seg = append(seg, o.bytes...)
		}
		o.at = now
		w.delivered = append(w.delivered, o)
		w.e.Act("deliver:"+o.what, "t=%v", now)
		n++
	}
	if len(seg) > 0 {
		w.sc.Deliver(seg)
	}
	w.outbox = w.outbox[n:]
}

// advance moves the clock to the next due delivery or by d, whichever is first;
// it returns when the library did something observable, too.
func (w *smcWorld) advance(d time.Duration) {
	if len(w.outbox) > 0 {
		if until := w.outbox[0].at - w.now(); until < d {
			d = until
		}
	}
	if d > 0 {
		if !w.e.Quiesce() {
			// somebody waits on a lock held across a stalled write: fake time cannot move
			w.stuck = true
			return
		}
		w.e.Advance(d)
	}
	// library timers due at this instant act first, then the peer's deliveries
	w.e.Quiesce()
	w.flush()
	w.e.Quiesce()
}

// ---------------------------------------------------------------- message builders (scripted server)

func serverCEA(req RefMsg, kind string) RefMsg {
	a := RefMsg{Cmd: cmdCE, App: 0, Flags: req.Flags &^ 0x80, HbH: req.HbH, E2E: req.E2E}
	rc := uint32(2001)
	switch kind {
	case "failed":
		rc = 5010
		a.Flags |= 0x20
	case "failed-3xxx":
		rc = 3004
		a.Flags |= 0x20
	}
	if kind != "no-result-code" {
		a.AVPs = append(a.AVPs, RefAVP{Code: 268, Flags: 0x40, Data: u32(rc)})
	}
	a.AVPs = append(a.AVPs, identAVPs("srv.peer.example", "peer.example", kind != "no-origin-host", true)...)
	a.AVPs = append(a.AVPs, addrAVP(net.IPv4(10, 0, 0, 1)), RefAVP{Code: avpVendorID, Flags: 0x40, Data: u32(10415)}, RefAVP{Code: avpProductName, Data: []byte("srv")})
	switch kind {
	case "success", "dup-success", "failed", "failed-3xxx", "no-result-code", "no-origin-host":
		a.AVPs = append(a.AVPs, RefAVP{Code: avpAuthApp, Flags: 0x40, Data: u32(4)}, RefAVP{Code: avpAcctApp, Flags: 0x40, Data: u32(3)})
	case "success-vs":
		a.AVPs = append(a.AVPs, appEntry{kind: "vs-auth", id: 16777251, vendorFirst: true}.avp())
	case "success-vs-two", "success-vs-two-rev":
		// RFC 3588 style: one group naming the application under both types; one of them is supported
		vid := RefAVP{Code: avpVendorID, Flags: 0x40, Data: u32(10415)}
		au := RefAVP{Code: avpAuthApp, Flags: 0x40, Data: u32(16777251)}
		ac := RefAVP{Code: avpAcctApp, Flags: 0x40, Data: u32(16777251)}
		g := RefAVP{Code: avpVSApp, Flags: 0x40, Group: []RefAVP{vid, au, ac}}
		if kind == "success-vs-two-rev" {
			g.Group = []RefAVP{vid, ac, au}
		}
		a.AVPs = append(a.AVPs, g)
	case "success-dual-auth":
		// an application the dictionary declares under both types, named with the first-declared one
		a.AVPs = append(a.AVPs, RefAVP{Code: avpAuthApp, Flags: 0x40, Data: u32(9001)})
	case "success-dual-acct":
		a.AVPs = append(a.AVPs, RefAVP{Code: avpAcctApp, Flags: 0x40, Data: u32(9001)})
	case "success-no-sharing":
		a.AVPs = append(a.AVPs, RefAVP{Code: avpAuthApp, Flags: 0x40, Data: u32(999)})
	case "success-no-sharing-vs":
		a.AVPs = append(a.AVPs, appEntry{kind: "vs-auth", id: 999, vendorFirst: true}.avp())
	case "success-appless":
	}
	return a
}

// ceaOutcome is the reference verdict for a CEA kind: does the dial return a connection?
func ceaSharing(kind string) bool {
	return kind == "success" || kind == "success-vs" || kind == "dup-success" || kind == "success-vs-two" || kind == "success-vs-two-rev" || kind == "success-dual-auth" || kind == "success-dual-acct"
}

func serverDWA(req RefMsg, rc uint32) RefMsg {
	a := RefMsg{Cmd: cmdDW, Flags: req.Flags &^ 0x80, HbH: req.HbH, E2E: req.E2E}
	a.AVPs = append(a.AVPs, RefAVP{Code: 268, Flags: 0x40, Data: u32(rc)})
	a.AVPs = append(a.AVPs, identAVPs("srv.peer.example", "peer.example", true, true)...)
	return a
}

func appAnswer(seq int) RefMsg {
	return RefMsg{Cmd: cmdCC, App: 4, HbH: uint32(9000 + seq), E2E: uint32(seq), AVPs: []RefAVP{
		{Code: avpSessionID, Flags: 0x40, Data: marker(0, seq, 20, 'a')}, {Code: 268, Flags: 0x40, Data: u32(2001)}}}
}

// ---------------------------------------------------------------- CER content oracle

func (w *smcWorld) checkCER(m RefMsg) bool {
	e := w.e
	fail := func(what, f string, a ...interface{}) bool {
		e.Fail("C12/cer-content/"+what, f, a...)
		return false
	}
	if m.Cmd != cmdCE || m.Flags&0x80 == 0 || m.App != 0 {
		return fail("header", "the first message of the dial is not a CER: %s", m)
	}
	oh, or := m.find(avpOriginHost), m.find(avpOriginRealm)
	if oh == nil || or == nil || string(oh.Data) != smcHost || string(or.Data) != smcRealm {
		return fail("identity", "the CER does not carry the configured Origin-Host/Origin-Realm")
	}
	got := hostIPs(m)
	if len(w.cfgAddrs) > 0 {
		if strings.Join(got, ",") != strings.Join(w.cfgAddrs, ",") {
			return fail("host-addresses", "CER Host-IP-Address %v, configured %v", got, w.cfgAddrs)
		}
	} else {
		local := endpointIPs(w.sc.LocalAddr())
		if !sharesAddr(got, w.sc.LocalAddr()) {
			return fail("host-addresses/local-endpoint", "no host address configured; CER Host-IP-Address %v does not contain the local endpoint %s", got, local)
		}
	}
	adv := advertisedApps(m)
	for k := range w.advertised {
		if !adv[k] {
			return fail("applications", "the client was told to advertise application %d (%s) and the CER does not", k.id, k.typ)
		}
	}
	return true
}

// ---------------------------------------------------------------- C12 scenario

type hsScript struct {
	answerCER  int // answer the k-th CER (1-based), 0 = never
	ceaKind    string
	delay      time.Duration // from the (end of the) answered CER's write
	delayClass string
	disconnect string // "", "eof", "rst"
	discAt     time.Duration
	preApp     bool // an application answer sent before the CEA
	pipelined  bool // an application answer in the same segment right behind the CEA
	stallCER   int  // stall the write of the k-th CER (0 = none) ...
	stallFor   time.Duration
	extras     []string // after the handshake: extra CEAs
	nAppAfter  int
	earlyCEA   bool // a CEA reaches the client before it has sent its CER (and before it has set up its handlers)
	dwrStall   bool // instead of a CEA the peer sends a DWR and then stops reading: the client's DWA write blocks for good
}

func drawHsScript(w *smcWorld) hsScript {
	t := w.e.T
	s := hsScript{}
	s.answerCER = t.Pick(2, 6, 2, 1, 1, 1)
	if s.answerCER > w.R+2 {
		s.answerCER = w.R + 1
	}
	s.ceaKind = []string{"success", "success", "success-vs", "failed", "failed-3xxx", "success-no-sharing", "success-no-sharing-vs", "success-appless", "no-result-code", "no-origin-host", "success-vs-two", "success-vs-two-rev", "success-dual-auth", "success-dual-acct"}[t.Pick(4, 3, 2, 2, 1, 1, 1, 1, 1, 1, 1, 1, 1, 1)]
	switch t.Pick(3, 3, 2, 2, 2, 1, 1) {
	case 0:
		s.delay, s.delayClass = 0, "immediate"
	case 1:
		s.delay, s.delayClass = w.I/2, "half"
	case 2:
		s.delay, s.delayClass = w.I-1, "deadline-1ns"
	case 3:
		s.delay, s.delayClass = w.I+1, "deadline+1ns"
	case 4:
		s.delay, s.delayClass = w.I, "on-deadline"
	case 5:
		s.delay, s.delayClass = w.I*time.Duration(w.R+2)+time.Millisecond, "after-budget"
	default:
		s.delay, s.delayClass = time.Duration(t.Range(1, int(3*w.I/time.Microsecond)))*time.Microsecond, "random"
	}
	switch t.Pick(8, 1, 1) {
	case 1:
		s.disconnect = "eof"
	case 2:
		s.disconnect = "rst"
	}
	if s.disconnect != "" {
		s.discAt = time.Duration(t.Range(0, int(time.Duration(w.R+2)*w.I/time.Microsecond))) * time.Microsecond
	}
	s.preApp = t.Chance(1, 5)
	s.pipelined = t.Chance(1, 3)
	if t.Chance(1, 6) {
		s.stallCER = t.Range(1, w.R+1)
		s.stallFor = []time.Duration{w.I / 3, w.I, w.I * 3 / 2, 2*w.I + 1}[t.Draw(4)]
	}
	for i, n := 0, t.Pick(3, 2, 1, 1); i < n; i++ {
		s.extras = append(s.extras, []string{"dup-success", "failed", "success-no-sharing", "no-result-code"}[t.Draw(4)])
	}
	s.nAppAfter = t.Range(0, 3)
	if len(w.cfgAddrs) == 0 && t.Chance(1, 6) {
		// (the seam is the handshake's look at the local address, which happens only when no host address is configured)
		s.earlyCEA = true
	}
	if w.R == 0 && !w.watchdog && t.Chance(1, 8) {
		// (only without retransmissions: a second CER would queue behind the blocked DWA write)
		s = hsScript{answerCER: 0, ceaKind: "success", delayClass: "never", dwrStall: true, stallFor: 1000 * w.I}
	}
	return s
}

// smcHandshake drives a dial to its end and checks C12 (and the client side of C10).
// It returns true when the dial returned a connection and everything checked out.
func smcHandshake(w *smcWorld, s hsScript) bool {
	e := w.e
	e.Act(fmt.Sprintf("script:R%d:a%d:%s:%s:d=%s:st%d:pre%v:pipe%v:x%d", w.R, s.answerCER, s.ceaKind, s.delayClass, s.disconnect, s.stallCER, s.preApp, s.pipelined, len(s.extras)), "")
	e.Act("script", "answer=%d kind=%s delay=%s(%v) disc=%s@%v preApp=%v pipelined=%v stall=%d/%v extras=%v", s.answerCER, s.ceaKind, s.delayClass, s.delay, s.disconnect, s.discAt, s.preApp, s.pipelined, s.stallCER, s.stallFor, s.extras)
	if s.stallCER == 1 {
		w.sc.ArmWriteFault(&WriteFault{Kind: "stall", After: 7})
	}
	if s.disconnect != "" {
		w.schedule(s.discAt, nil, s.disconnect)
	}
	if s.earlyCEA && !s.dwrStall {
		// the connection's reader is running, the handshake has not registered its handlers yet:
		// an unsolicited CEA arrives right now (nobody handles it); the real exchange follows
		w.sc.ArmLocalAddrPark()
		w.dial()
		e.Quiesce()
		early := RefMsg{Cmd: cmdCE, App: 0, HbH: 0x0e0e0e0e, E2E: 0x0e0e0e0f, AVPs: []RefAVP{{Code: 268, Flags: 0x40, Data: u32(2001)}}}
		early.AVPs = append(early.AVPs, identAVPs("srv.peer.example", "peer.example", true, true)...)
		w.sc.Deliver(early.Bytes())
		e.Quiesce()
		if w.sc.ReleaseLocalAddr() {
			e.Fault("cea-before-the-handshake-started")
			e.Probe("cea-before-handlers-registered")
		}
		e.Quiesce()
	} else {
		w.dial()
	}
	nCER := 0
	appSent := 0
	var firstCER []byte
	stalledSince := time.Duration(-1)
	budget := time.Duration(w.R+3)*w.I + s.delay + s.stallFor + time.Second
	for steps := 0; steps < 400; steps++ {
		e.T.Mark()
		e.Quiesce()
		if w.sc.Stalled() {
			if stalledSince < 0 {
				stalledSince = w.now()
			}
			if w.now()-stalledSince >= s.stallFor {
				w.sc.Resume()
				e.Act("resume", "t=%v", w.now())
				stalledSince = -1
				continue
			}
			w.advance(s.stallFor - (w.now() - stalledSince))
			if w.stuck {
				e.Fail("C12/dial-never-returns/close-blocked", "the dial's budget ran out at %v while a write of the same connection was blocked in the transport: NewConn has not returned (a goroutine waits on a library lock, fake time cannot advance)", w.now())
				return false
			}
			continue
		}
		for _, o := range w.collect() {
			if o.msg.Cmd == cmdCE && o.msg.Flags&0x80 != 0 {
				nCER++
				e.Act("cer", "#%d t=%v..%v", nCER, o.at, o.end)
				if nCER == 1 {
					firstCER = o.raw
					if !w.checkCER(o.msg) {
						return false
					}
				} else if !bytes.Equal(o.raw, firstCER) {
					// a retransmission may differ in the T flag only; it must still be "that CER"
					first, _ := refParse(firstCER)
					if o.msg.HbH != first.HbH || o.msg.E2E != first.E2E || !w.checkCER(o.msg) {
						e.Fail("C12/retransmission-differs", "CER #%d is not a retransmission of the first one (identifiers or content differ)", nCER)
						return false
					}
				}
				if nCER == s.answerCER {
					if s.preApp {
						w.schedule(s.delay/2, appAnswer(appSent).Bytes(), "app-before-cea")
						appSent++
					}
					b := serverCEA(o.msg, s.ceaKind).Bytes()
					if s.pipelined {
						b = append(b, appAnswer(appSent).Bytes()...)
						appSent++
					}
					w.schedule(s.delay, b, "cea:"+s.ceaKind)
				}
				if nCER+1 == s.stallCER {
					w.sc.ArmWriteFault(&WriteFault{Kind: "stall", After: 11})
				}
				if s.dwrStall && nCER == 1 {
					e.TrustWait = false // a goroutine is held in a transport write while the dial's deadline passes
					w.sc.ArmWriteFault(&WriteFault{Kind: "stall", After: 9})
					req := RefMsg{Cmd: cmdDW, Flags: 0x80, HbH: 0x71000000, E2E: 0x71000001, AVPs: identAVPs("srv.peer.example", "peer.example", true, true)}
					w.schedule(w.I/4, req.Bytes(), "peer-dwr")
					e.Fault("peer-dwr-instead-of-cea")
					e.Probe("dwa-write-blocked-during-handshake")
				}
			}
		}
		if e.Failed() {
			return false
		}
		w.mu.Lock()
		done := w.dialDone
		w.mu.Unlock()
		if done {
			break
		}
		if w.now() > budget {
			e.Fail("C12/dial-never-returns", "NewConn has not returned %v after the dial started (budget R=%d I=%v)", w.now(), w.R, w.I)
			return false
		}
		w.advance(w.I)
	}
	return smcCheckHandshake(w, s, nCER, appSent)
}

func smcCheckHandshake(w *smcWorld, s hsScript, nCER, appSent int) bool {
	e := w.e
	w.mu.Lock()
	done, derr, dialAt, conn := w.dialDone, w.dialErr, w.dialAt, w.conn
	enters := append([]int{}, w.enters...)
	w.mu.Unlock()
	if !done {
		e.Fail("C12/dial-never-returns", "NewConn did not return")
		return false
	}
	// transmissions: count and spacing
	var cers []smcObs
	for _, o := range w.obs {
		if o.msg.Cmd == cmdCE && o.msg.Flags&0x80 != 0 {
			cers = append(cers, o)
		}
	}
	if len(cers) > w.R+1 {
		e.Fail("C12/too-many-transmissions", "%d CER transmissions with MaxRetransmits=%d", len(cers), w.R)
		return false
	}
	for i := 1; i < len(cers); i++ {
		if gap := cers[i].at - cers[i-1].end; gap < w.I {
			e.Fail("C12/retransmit-too-early", "CER #%d was sent %v after CER #%d had been written; RetransmitInterval is %v", i+1, gap, i, w.I)
			return false
		}
	}
	// the first CEA delivered while the handshake was still waiting decides
	var decider *smcOut
	for i := range w.delivered {
		d := &w.delivered[i]
		if strings.HasPrefix(d.what, "cea:") {
			decider = d
			break
		}
	}
	var disc *smcOut
	for i := range w.delivered {
		d := &w.delivered[i]
		if d.what == "eof" || d.what == "rst" {
			disc = d
			break
		}
	}
	// Reference verdict (DESIGN appendix A.5). The first CEA delivered before the
	// dial returned decides, provided the peer had not hung up before it.
	got := "error"
	if derr == nil && conn != nil {
		got = "conn"
	}
	if derr == nil && conn == nil {
		e.Fail("C12/no-connection-no-error", "NewConn returned neither a connection nor an error")
		return false
	}
	discBefore := func(t time.Duration) bool { return disc != nil && disc.at < t }
	discAtOrBefore := func(t time.Duration) bool { return disc != nil && disc.at <= t }
	describe := fmt.Sprintf("dial returned %s (err=%v) at t=%v; first CEA %s delivered at %v; disconnect %s at %v; R=%d I=%v; CER writes %s",
		got, derr, dialAt, whatOf(decider), atOf(decider), whatOf(disc), atOf(disc), w.R, w.I, cerTimes(cers))
	if got == "conn" {
		ok := decider != nil && decider.at <= dialAt && ceaSharing(strings.TrimPrefix(decider.what, "cea:")) && !discBefore(decider.at)
		if !ok {
			e.Fail("C12/wrong-outcome/want-error", "a connection was returned without a success CEA sharing an application having been received: %s", describe)
			return false
		}
	} else {
		// an error is wrong when a sharing success CEA had been received in time
		if decider != nil && decider.at < dialAt && ceaSharing(strings.TrimPrefix(decider.what, "cea:")) && !discAtOrBefore(dialAt) {
			e.Fail("C12/wrong-outcome/want-conn", "a success CEA sharing an application arrived before the dial gave up, yet it failed: %s", describe)
			return false
		}
		decided := decider != nil && decider.at <= dialAt
		hungUp := disc != nil && disc.at <= dialAt
		if !decided && !hungUp {
			// nothing happened: the client must have used its whole budget
			if len(cers) != w.R+1 {
				e.Fail("C12/gave-up-early", "nothing was received; %d CER transmissions, MaxRetransmits+1 = %d: %s", len(cers), w.R+1, describe)
				return false
			}
			if dialAt < cers[len(cers)-1].end+w.I {
				e.Fail("C12/gave-up-early", "the dial failed before the last CER had waited RetransmitInterval: %s", describe)
				return false
			}
			if !errors.Is(derr, sm.ErrHandshakeTimeout) {
				e.Fail("C12/timeout-error", "nothing answered the CERs; NewConn returned %v, want ErrHandshakeTimeout", derr)
				return false
			}
			e.Probe("handshake-timeout")
		} else if decided && !hungUp {
			e.Probe("handshake-refused:" + strings.TrimPrefix(decider.what, "cea:"))
		}
		if !w.sc.Closed() {
			e.Fail("C12/failed-dial-transport-open", "NewConn returned %v and the transport was not closed", derr)
			return false
		}
		return false
	}
	if disc != nil && disc.at <= dialAt {
		return false // the peer hung up as the dial returned: nothing more to observe
	}
	// a disconnect still pending in the script would end the connection legitimately
	var keep []smcOut
	for _, o := range w.outbox {
		if o.what != "eof" && o.what != "rst" {
			keep = append(keep, o)
		}
	}
	w.outbox = keep
	if w.sc.Closed() {
		e.Fail("C12/closed-after-success", "NewConn returned a connection and the transport is closed")
		return false
	}
	e.Probe("handshake-success")
	// C10, client side: nothing before the CEA reached a handler; the pipelined one did
	wantEnters := 0
	if s.pipelined {
		wantEnters = 1
	}
	preSeen := false
	for _, sq := range enters {
		if s.preApp && sq == 0 {
			preSeen = true
		}
	}
	if preSeen {
		e.Fail("C10/handler-ran-before-handshake", "an application answer delivered before the CEA was dispatched to the application handler")
		return false
	}
	if len(enters) != wantEnters {
		e.Fail("C10/handler-not-invoked/after-cea", "%d application message(s) directly behind the success CEA, the handler ran %d time(s)", wantEnters, len(enters))
		return false
	}
	_ = appSent
	return true
}

func whatOf(o *smcOut) string {
	if o == nil {
		return "none"
	}
	return o.what
}
func atOf(o *smcOut) time.Duration {
	if o == nil {
		return -1
	}
	return o.at
}
func cerTimes(c []smcObs) string {
	var sb strings.Builder
	for _, o := range c {
		fmt.Fprintf(&sb, "[%v..%v]", o.at, o.end)
	}
	return sb.String()
}

// smcAfter: after a successful handshake, extra CEAs and application answers.
func smcAfter(w *smcWorld, s hsScript) bool {
	e := w.e
	w.mu.Lock()
	base := len(w.enters)
	w.mu.Unlock()
	var lastCER RefMsg
	for _, o := range w.obs {
		if o.msg.Cmd == cmdCE {
			lastCER = o.msg
		}
	}
	seq := 100
	want := 0
	for _, x := range s.extras {
		w.schedule(time.Duration(1+e.T.Draw(5))*time.Millisecond, serverCEA(lastCER, x).Bytes(), "extra-cea:"+x)
		e.Fault("extra-cea:" + x)
		if e.T.Chance(1, 2) {
			w.schedule(time.Duration(1+e.T.Draw(5))*time.Millisecond, appAnswer(seq).Bytes(), "app-answer")
			seq++
			want++
		}
	}
	for i := 0; i < s.nAppAfter; i++ {
		w.schedule(time.Duration(1+e.T.Draw(5))*time.Millisecond, appAnswer(seq).Bytes(), "app-answer")
		seq++
		want++
	}
	if !w.watchdog && !w.noCatchAll && (w.shared == nil || !w.shared.noCatchAll) && e.T.Chance(1, 3) {
		// without a watchdog the client has no use for DWAs itself: an unsolicited one is an
		// answer like any other and goes to the application's handlers
		dwa := RefMsg{Cmd: cmdDW, App: 0, HbH: uint32(9500 + seq), E2E: uint32(seq), AVPs: []RefAVP{
			{Code: avpSessionID, Flags: 0x40, Data: marker(0, seq, 20, 'a')}, {Code: 268, Flags: 0x40, Data: u32(2001)}}}
		dwa.AVPs = append(dwa.AVPs, identAVPs("srv.peer.example", "peer.example", true, true)...)
		w.schedule(time.Duration(1+e.T.Draw(5))*time.Millisecond, dwa.Bytes(), "app-answer:dwa")
		seq++
		want++
		e.Probe("unsolicited-dwa-to-application")
	}
	for len(w.outbox) > 0 {
		w.advance(10 * time.Millisecond)
		for _, o := range w.collect() {
			if o.msg.Cmd == cmdDW && o.msg.Flags&0x80 != 0 {
				w.schedule(0, serverDWA(o.msg, 2001).Bytes(), "dwa") // keep a watchdog client happy meanwhile
			}
		}
	}
	w.e.Quiesce()
	if w.sc.Closed() {
		e.Fail("C12/closed-after-handshake", "the handshake had succeeded; after further CEAs %v the client closed the connection", s.extras)
		return false
	}
	if strings.Contains(e.LogText(), "panic serving") {
		e.Fail("C12/panic-after-handshake", "the connection's goroutine panicked after the handshake: %s", short(e.LogText(), 200))
		return false
	}
	w.mu.Lock()
	got := len(w.enters) - base
	var okMeta = true
	for _, m := range w.metaOK {
		okMeta = okMeta && m
	}
	w.mu.Unlock()
	if got != want {
		e.Fail("C12/answers-not-dispatched", "%d application answers were delivered after the handshake (amid extra CEAs %v), the application handler ran %d time(s)", want, s.extras, got)
		return false
	}
	if !okMeta {
		e.Fail("C10/handler-ran-before-handshake", "an application handler ran on a connection without peer metadata")
		return false
	}
	if len(s.extras) > 0 {
		e.Probe("extra-cea-survived")
	}
	return true
}

func (w *smcWorld) teardown() {
	w.sc.Resume()
	w.sc.EndRead(io.EOF, false)
	durable := w.e.Quiesce()
	// let a watchdog goroutine notice and leave
	if w.watchdog && durable {
		w.e.Advance(w.W + w.I*time.Duration(w.R+2))
		w.e.Quiesce()
	}
}

func c12Run(e *Env) {
	e.TrustWait = true // the only goroutine ever held inside the library is a stalled CER write, which nobody contends with
	w := newSmcWorld(e, e.T.Chance(1, 4))
	s := drawHsScript(w)
	redial := e.T.Chance(1, 3)
	e.NonTrivial()
	ok := smcHandshake(w, s)
	if ok {
		ok = smcAfter(w, s)
	}
	keepFirst := ok && redial && !w.watchdog && e.T.Chance(1, 2)
	if !keepFirst {
		w.teardown()
	}
	if e.Failed() || !redial {
		if keepFirst {
			w.teardown()
		}
		return
	}
	// the same Client dials again (reconnect, another peer, or a second connection
	// while the first one stays in use)
	e.Probe("redial")
	e.Act("redial", "first dial ok=%v kept=%v", ok, keepFirst)
	w2 := w.redial()
	if e.T.Chance(1, 3) {
		// the application changed what the Client advertises before dialling again
		w2.drawApps()
		e.Probe("applications-changed-before-redial")
	}
	s2 := hsScript{answerCER: 1, ceaKind: "success", delayClass: "quick", delay: time.Duration(e.T.Draw(3)) * w.I / 4}
	if e.T.Chance(1, 3) {
		s2.answerCER = 0 // silence: the second dial must time out like a first one would
	}
	smcHandshake(w2, s2)
	w2.teardown()
	if keepFirst && !e.Failed() {
		// the first connection must be unaffected by what happened to the second dial
		e.Probe("first-connection-kept-across-redial")
		w.start = w2.start // (clock bookkeeping only: "now" is relative to a start instant)
		smcAfter(w, hsScript{extras: []string{"dup-success", "failed"}, nAppAfter: 1})
	}
	if keepFirst {
		w.teardown()
	}
}

// redial returns a world for a second connection dialled by the same Client.
func (w *smcWorld) redial() *smcWorld {
	w2 := &smcWorld{e: w.e, cli: w.cli, mach: w.mach, R: w.R, I: w.I, W: w.W, watchdog: w.watchdog, cfgAddrs: w.cfgAddrs, advertised: w.advertised}
	la := drawAddr(w.e.T, 50001)
	if containsStr(endpointIPs(w.sc.LocalAddr()), la.IP.String()) {
		la = &net.TCPAddr{IP: net.IPv4(10, 77, 0, 9), Port: 50001}
	}
	w2.sc = newSimConn(w.e, "cli2", la, w.sc.RemoteAddr())
	w2.start = time.Now()
	w2.shared = w
	return w2
}

// ---------------------------------------------------------------- C13: watchdog (client half)

type dwPlan struct {
	kind  string // ack, ack-retrans, fail-then-ack, both, late, silent
	j     int
	delay time.Duration
}

type dwTx struct {
	at  time.Duration // write entered
	end time.Duration // write returned
	hbh uint32
	raw []byte
}

func drawDwPlans(w *smcWorld, n int) []dwPlan {
	t := w.e.T
	var out []dwPlan
	for c := 0; c < n; c++ {
		p := dwPlan{kind: "ack"}
		switch t.Pick(6, 2, 2, 2, 2, 1) {
		case 1:
			if w.R >= 1 {
				p.kind, p.j = "ack-retrans", t.Range(1, w.R)
			}
		case 2:
			p.kind = "fail-then-ack"
		case 3:
			if w.R >= 1 {
				p.kind = "both"
			}
		case 4:
			if w.R >= 1 {
				p.kind = "late"
			}
		case 5:
			p.kind = "silent"
		}
		p.delay = []time.Duration{0, w.I / 2, w.I - 1, time.Microsecond}[t.Draw(4)]
		if p.kind == "ack" && t.Chance(1, 6) {
			p.j = 99 // (marks an acknowledgement that is sent three times)
		}
		out = append(out, p)
		if p.kind == "silent" {
			break
		}
	}
	return out
}

// c13Client runs the watchdog phase; forC14 adds a termination and the leak check.
// c13Forced fixes the budget and the per-cycle plans (sweep).
type c13Forced struct {
	R     int
	plans []dwPlan
}

func c13Client(e *Env, forC14 bool) { c13ClientX(e, forC14, nil) }

func c13ClientX(e *Env, forC14 bool, forced *c13Forced) {
	t := e.T
	e.TrustWait = true
	var w *smcWorld
	if forced == nil && !forC14 && t.Chance(1, 8) {
		// the Client first dials with the watchdog off and WatchdogInterval never set; the
		// application then switches EnableWatchdog on and dials again: the documented default
		// interval (five seconds) applies to the new connection
		w0 := newSmcWorld(e, false)
		w0.cli.WatchdogInterval = 0
		ok := smcHandshake(w0, hsScript{answerCER: 1, ceaKind: "success", delayClass: "quick"})
		w0.teardown()
		if !ok || e.Failed() {
			return
		}
		w0.cli.EnableWatchdog = true
		w = w0.redial()
		w.watchdog, w.W = true, 5*time.Second
		w0.target = w
		e.Probe("watchdog-switched-on-before-redial")
		e.Act("watchdog-switched-on", "")
	} else {
		w = newSmcWorld(e, true)
	}
	if forced != nil {
		w.R, w.I, w.W = forced.R, time.Second, 5*time.Second
		w.cli.MaxRetransmits, w.cli.RetransmitInterval, w.cli.WatchdogInterval = uint(w.R), w.I, w.W
	}
	s := hsScript{answerCER: 1, ceaKind: "success", delay: time.Duration(t.Draw(3)) * w.I / 4, delayClass: "quick"}
	if !smcHandshake(w, s) {
		w.teardown()
		return
	}
	w.mu.Lock()
	hsAt := w.dialAt
	appConn := w.conn
	w.mu.Unlock()
	if forced == nil && appConn != nil && t.Chance(1, 5) {
		// the application hangs a context of its own on the connection (derived from the
		// connection's, as it should be) and later cancels it: its business, not the watchdog's
		ctx, cancel := context.WithCancel(appConn.Context())
		appConn.SetContext(ctx)
		cancel()
		e.Probe("application-context-cancelled")
	}
	nCycles := t.Pick(2, 3, 3, 1) * 3
	if t.Chance(1, 6) {
		nCycles = 22 // bounded liveness: a responsive peer is spared for many cycles
	}
	if nCycles == 0 {
		nCycles = 1
	}
	plans := drawDwPlans(w, nCycles)
	if forced != nil {
		plans = forced.plans
	}
	{
		ks := fmt.Sprintf("plans:R%d", w.R)
		for i, pl := range plans {
			if i < 8 {
				ks += ":" + pl.kind
			}
		}
		e.Act(ks, "")
	}
	e.Act("plans", "%d cycles, last=%s", len(plans), plans[len(plans)-1].kind)
	var txs []dwTx
	cycleOf := map[uint32]int{}
	txInCycle := map[int]int{}
	closedAt := time.Duration(-1)
	limit := w.now() + time.Duration(len(plans)+2)*(w.W+time.Duration(w.R+2)*w.I)
	term := ""
	if forC14 {
		term = []string{"peer-eof", "rst", "local-close"}[t.Draw(3)]
	}
	peerDWRLeft := t.Draw(4)
	if forced != nil {
		peerDWRLeft = 0
	}
	// slow transport: every DWR write takes stallFor of fake time; the peer answers at once
	slow := forced == nil && !forC14 && t.Chance(1, 7)
	stallFor := []time.Duration{w.I, w.I + w.I/2, w.I / 2}[t.Draw(3)]
	// one DWR write fails with a temporary error: that round is given up, the watchdog goes on
	failCycle := -1
	if forced == nil && !forC14 && !slow && t.Chance(1, 7) {
		failCycle = t.Draw(3)
	}
	var failedAt []time.Duration
	failArmed := false
	if slow || failCycle >= 0 {
		peerDWRLeft = 0
		for i := range plans {
			plans[i] = dwPlan{kind: "ack", delay: 0}
		}
		if slow {
			w.sc.ArmWriteFault(&WriteFault{Kind: "stall", After: 9})
			e.Fault("slow-dwr-writes")
		}
	}
	// eager peer: its DWA is back before the client's write call of the DWR has returned (a
	// transport whose Write returns late, or a writer that is descheduled right after it)
	eager := forced == nil && !forC14 && !slow && failCycle < 0 && t.Chance(1, 6)
	if eager {
		peerDWRLeft = 0
		for i := range plans {
			plans[i] = dwPlan{kind: "ack-in-write"}
		}
		w.sc.ArmWriteFault(&WriteFault{Kind: "stall", After: 1 << 20})
		e.Fault("dwa-before-write-returns")
	}
	earlyTerm := false
	stalledSince := time.Duration(-1)
	appStalled := forced != nil // (the sweep does not stall application writes)
	type pend struct {
		req RefMsg
		at  time.Duration
	}
	var pending []pend
	for steps := 0; steps < 2000; steps++ {
		e.T.Mark()
		if slow && w.sc.Stalled() {
			if stalledSince < 0 {
				stalledSince = w.now()
			}
			if w.now()-stalledSince >= stallFor {
				w.sc.Resume()
				stalledSince = -1
				w.sc.ArmWriteFault(&WriteFault{Kind: "stall", After: 9}) // the next write is slow too
				e.Quiesce()
				continue
			}
			w.advance(stallFor - (w.now() - stalledSince))
			continue
		}
		if eager && w.sc.Stalled() {
			// the whole DWR is with the peer, the client's Write has not returned yet
			full := w.sc.Written()
			start := 0
			for _, r := range w.sc.WriteRecs() {
				start = r.Start + r.N
			}
			if rm, err := refParse(full[start:]); err == nil && rm.Cmd == cmdDW && rm.Flags&0x80 != 0 {
				w.schedule(0, serverDWA(rm, 2001).Bytes(), "dwa:2001")
				w.flush()
				e.Quiesce()
				e.Probe("dwa-handled-before-dwr-write-returned")
			}
			w.sc.Resume()
			w.sc.ArmWriteFault(&WriteFault{Kind: "stall", After: 1 << 20})
			e.Quiesce()
			continue
		}
		if failCycle >= 0 && !failArmed && len(cycleOf) == failCycle {
			// (the next write of the client is the DWR opening cycle failCycle)
			w.sc.ArmWriteFault(&WriteFault{Kind: "temp", After: t.Range(0, 30)})
			failArmed = true
			e.Fault("dwr-write-temp-error")
		}
		for _, r := range w.sc.WriteRecs() {
			if strings.Contains(r.Err, "temporary write error") && !containsDur(failedAt, r.At) {
				failedAt = append(failedAt, r.At)
				failCycle = -1
			}
		}
		if peerDWRLeft > 0 && !w.sc.Closed() && t.Chance(1, 3) {
			// the peer probes the client: a state machine in the client role answers too
			peerDWRLeft--
			req := RefMsg{Cmd: cmdDW, Flags: 0x80, HbH: 0x70000000 + uint32(peerDWRLeft), E2E: c16IDs[t.Draw(4)], AVPs: identAVPs("srv.peer.example", "peer.example", true, true)}
			w.schedule(time.Duration(t.Draw(3))*w.I/5, req.Bytes(), "peer-dwr")
			pending = append(pending, pend{req, w.now()})
			e.Fault("peer-dwr")
		}
		for _, o := range w.collect() {
			if o.msg.Cmd == cmdDW && o.msg.Flags&0x80 == 0 {
				// a DWA from the client: must answer one of the peer's DWRs
				found := -1
				for i, pd := range pending {
					if pd.req.HbH == o.msg.HbH && pd.req.E2E == o.msg.E2E {
						found = i
					}
				}
				if found < 0 {
					e.Fail("C13/unsolicited-dwa", "the client sent a DWA (%s) that answers none of the peer's DWRs", o.msg)
					break
				}
				oh, or := o.msg.find(avpOriginHost), o.msg.find(avpOriginRealm)
				rc := o.msg.find(268)
				if oh == nil || or == nil || string(oh.Data) != smcHost || string(or.Data) != smcRealm || rc == nil || be32(rc.Data) != 2001 || o.msg.Flags&0x40 != pending[found].req.Flags&0x40 {
					e.Fail("C13/dwa-content/client-role", "the client's DWA lacks the local identity, the success result code or the request's P bit: %s", o.msg)
					break
				}
				pending = append(pending[:found], pending[found+1:]...)
				e.Probe("client-role-dwa")
				continue
			}
			if o.msg.Cmd != cmdDW || o.msg.Flags&0x80 == 0 {
				continue
			}
			c, seen := cycleOf[o.msg.HbH]
			if !seen {
				c = len(cycleOf)
				cycleOf[o.msg.HbH] = c
			}
			r := txInCycle[c]
			txInCycle[c]++
			txs = append(txs, dwTx{o.at, o.end, o.msg.HbH, o.raw})
			e.Act("dwr", "cycle %d tx %d t=%v", c, r, o.at)
			oh, or := o.msg.find(avpOriginHost), o.msg.find(avpOriginRealm)
			if oh == nil || or == nil || string(oh.Data) != smcHost || string(or.Data) != smcRealm {
				e.Fail("C13/dwr-identity", "a DWR does not carry the configured identity")
				w.teardown()
				return
			}
			if c >= len(plans) {
				continue // beyond the script: stay silent
			}
			p := plans[c]
			switch p.kind {
			case "ack":
				if r == 0 {
					w.schedule(p.delay, serverDWA(o.msg, 2001).Bytes(), "dwa:2001")
					if p.j == 99 {
						// a peer that repeats itself: the same answer twice more, right behind the first
						w.schedule(p.delay+time.Microsecond, serverDWA(o.msg, 2001).Bytes(), "dwa:2001")
						w.schedule(p.delay+2*time.Microsecond, serverDWA(o.msg, 2001).Bytes(), "dwa:2001")
						e.Fault("dwa-repeated")
					}
				}
			case "ack-retrans":
				if r == p.j {
					w.schedule(p.delay, serverDWA(o.msg, 2001).Bytes(), "dwa:2001")
				}
			case "fail-then-ack":
				if r == 0 {
					w.schedule(p.delay, serverDWA(o.msg, 5012).Bytes(), "dwa:5012")
					e.Fault("dwa-failure-code")
				} else if r == 1 {
					w.schedule(p.delay, serverDWA(o.msg, 2001).Bytes(), "dwa:2001")
				}
			case "both":
				if r <= 1 {
					w.schedule(w.I+time.Millisecond, serverDWA(o.msg, 2001).Bytes(), "dwa:2001")
					e.Fault("dwa-surplus")
				}
			case "late":
				if r == 0 {
					w.schedule(w.I+w.I/3, serverDWA(o.msg, 2001).Bytes(), "dwa:2001")
					e.Fault("dwa-late")
				}
			case "silent":
				e.Fault("peer-silent")
				if forC14 && r == 0 && w.R >= 1 && t.Chance(1, 2) {
					// the connection ends while this DWR is still waiting for its answer
					earlyTerm = true
					e.Probe("terminated-with-dwr-outstanding")
				}
				dwaDue := false
				for _, o := range w.outbox {
					if strings.HasPrefix(o.what, "dwa") {
						dwaDue = true // a late answer would start another cycle, whose DWR queues behind the stalled write
					}
				}
				for _, d := range w.delivered {
					if strings.HasPrefix(d.what, "dwa") && d.at >= o.at {
						dwaDue = true // it arrived right behind this transmission: the watchdog took it as the answer
					}
				}
				if r == w.R && !appStalled && len(pending) == 0 && !dwaDue && t.Chance(1, 2) {
					// the peer has also stopped reading: an application write on the same
					// connection stalls after the watchdog's last transmission
					appStalled = true
					peerDWRLeft = 0 // nobody else may queue behind the stalled write: a lock wait freezes the fake clock
					var keep []smcOut
					for _, o := range w.outbox {
						if o.what != "peer-dwr" {
							keep = append(keep, o)
						}
					}
					w.outbox = keep
					e.TrustWait = false
					w.sc.ArmWriteFault(&WriteFault{Kind: "stall", After: 5})
					w.mu.Lock()
					c := w.conn
					w.mu.Unlock()
					app := RefMsg{Cmd: cmdCC, App: 4, Flags: 0x80, HbH: 4242, E2E: 4242, AVPs: []RefAVP{{Code: avpSessionID, Flags: 0x40, Data: []byte("app-write")}}}.Bytes()
					go func() { c.Write(app) }()
					e.Quiesce()
					e.Fault("app-write-stalled")
				}
			}
		}
		if earlyTerm {
			// (the peer's own probes that are still on their way are not sent, and those already
			// answered in this step have been matched above: the run ends here)
			pending = nil
			var keep []smcOut
			for _, o := range w.outbox {
				if o.what != "peer-dwr" {
					keep = append(keep, o)
				}
			}
			w.outbox = keep
		}
		if e.Failed() || earlyTerm {
			break
		}
		if cl, at := w.sc.ClosedAt(); cl {
			closedAt = at
			break
		}
		if len(cycleOf) >= len(plans) && plans[len(plans)-1].kind != "silent" && len(w.outbox) == 0 {
			// the script is over and the last cycle was acknowledged
			last := len(cycleOf) - 1
			if txInCycle[last] > 0 && w.now() > txs[len(txs)-1].at+w.I {
				break
			}
		}
		if w.now() > limit {
			break
		}
		step := w.W
		if w.I > step {
			step = w.I
		}
		w.advance(step) // returns at the next library write or due delivery, whichever is first
		if w.stuck {
			break
		}
	}
	if w.stuck && !e.Failed() {
		e.Fail("C13/silent-peer-not-detected/close-blocked", "the watchdog's budget ran out at %v with an application write stalled on the same connection: the connection was not closed (a goroutine waits on a library lock, fake time cannot advance)", w.now())
	}
	if !e.Failed() && len(pending) > 0 && closedAt < 0 {
		// give outstanding probes one more interval, then they must have been answered
		w.advance(w.I)
		for _, o := range w.collect() {
			if o.msg.Cmd == cmdDW && o.msg.Flags&0x80 == 0 {
				for i, pd := range pending {
					if pd.req.HbH == o.msg.HbH && pd.req.E2E == o.msg.E2E {
						pending = append(pending[:i], pending[i+1:]...)
						break
					}
				}
			}
		}
		if len(pending) > 0 && !w.sc.Closed() {
			delivered := false
			for _, d := range w.delivered {
				if d.what == "peer-dwr" {
					delivered = true
				}
			}
			if delivered {
				e.Fail("C13/no-dwa/client-role", "the peer, having completed the handshake, sent %d well-formed DWR(s) to the client's state machine and got no DWA", len(pending))
			}
		}
	}
	if !e.Failed() && !earlyTerm {
		c13Check(w, plans, txs, hsAt, closedAt, failedAt)
	}
	// liveness: while the connection is open the watchdog keeps probing
	if !e.Failed() && closedAt < 0 && !w.stuck && len(cycleOf) < len(plans) {
		last := hsAt
		if len(txs) > 0 {
			last = txs[len(txs)-1].end
		}
		for _, f := range failedAt {
			if f > last {
				last = f
			}
		}
		if w.now()-last > 2*w.W+time.Duration(w.R+2)*w.I {
			e.Fail("C13/watchdog-stopped", "the connection is open, the last DWR activity was at %v and it is now %v (WatchdogInterval %v): the watchdog no longer probes the peer", last, w.now(), w.W)
		}
	}
	if forC14 && !e.Failed() {
		// end the connection, then every goroutine started on its behalf must leave
		e.Probe("term:" + term)
		switch term {
		case "peer-eof":
			burst := 0
			if !w.sc.Closed() && t.Chance(1, 2) {
				// the peer's last words: a burst of answers in one segment, then it hangs up;
				// what arrived before the end is dispatched (CloseNotify is active: the watchdog asked for it)
				w.mu.Lock()
				before := len(w.enters)
				w.mu.Unlock()
				var seg []byte
				burst = t.Range(2, 4)
				for i := 0; i < burst; i++ {
					seg = append(seg, appAnswer(800+i).Bytes()...)
				}
				w.sc.Deliver(seg)
				if t.Chance(1, 2) {
					w.sc.EndReadWithData(io.EOF)
				} else {
					w.sc.EndRead(io.EOF, false)
				}
				e.Quiesce()
				w.mu.Lock()
				got := len(w.enters) - before
				w.mu.Unlock()
				e.Probe("burst-then-hang-up")
				if got != burst && !w.sc.Closed() || got > burst {
					e.Fail("C14/messages-lost-duplicated-or-reordered", "the peer sent %d answers in one segment and hung up; the application handler ran %d time(s)", burst, got)
				} else if got != burst {
					// (the client had closed the connection itself meanwhile: nothing is owed)
					_ = got
				}
			} else {
				w.sc.EndRead(io.EOF, false)
			}
		case "rst":
			w.sc.EndRead(errSimReset, true)
		case "local-close":
			w.mu.Lock()
			c := w.conn
			w.mu.Unlock()
			if c != nil {
				c.Close()
			}
		}
		e.Quiesce()
		before := len(w.sc.WriteRecs())
		e.Advance(3*w.W + time.Duration(w.R+3)*w.I)
		e.Quiesce()
		e.Advance(3 * w.W)
		e.Quiesce()
		if left := e.LibGoroutines(); len(left) > 0 {
			what := "other"
			if strings.Contains(left[0], "watchdog") {
				what = "watchdog"
			}
			e.Fail("C14/goroutine-leak/"+what+"/term="+term, "the connection ended (%s) and %d library goroutine(s) are still there %v of fake time later:\n%s", term, len(left), 6*w.W, short(left[0], 700))
		}
		_ = before
		return
	}
	w.teardown()
}

// c13Check replays the reference watchdog timeline (DESIGN appendix A.6) against the observation.
func containsDur(l []time.Duration, d time.Duration) bool {
	for _, x := range l {
		if x == d {
			return true
		}
	}
	return false
}

func c13Check(w *smcWorld, plans []dwPlan, txs []dwTx, hsAt, closedAt time.Duration, failedAt []time.Duration) {
	e := w.e
	// success DWA delivery instants
	var acks []time.Duration
	for _, d := range w.delivered {
		if d.what == "dwa:2001" {
			acks = append(acks, d.at)
		}
	}
	// group transmissions into cycles by hop-by-hop id, in order
	type cyc struct {
		hbh uint32
		at  []time.Duration
		end []time.Duration
		raw [][]byte
	}
	var cycles []*cyc
	for _, tx := range txs {
		if len(cycles) == 0 || cycles[len(cycles)-1].hbh != tx.hbh {
			for _, c := range cycles {
				if c.hbh == tx.hbh {
					e.Fail("C13/stale-dwr-id", "a DWR reuses the hop-by-hop id of an earlier watchdog cycle")
					return
				}
			}
			cycles = append(cycles, &cyc{hbh: tx.hbh})
		}
		c := cycles[len(cycles)-1]
		c.at = append(c.at, tx.at)
		c.end = append(c.end, tx.end)
		c.raw = append(c.raw, tx.raw)
	}
	if len(cycles) == 0 {
		if closedAt >= 0 {
			e.Fail("C13/closed-without-probing", "the client closed the connection at %v without having sent a DWR", closedAt)
		} else {
			e.Fail("C13/no-dwr", "watchdog enabled, %v of fake time after the handshake and no DWR was sent (WatchdogInterval %v)", w.now()-hsAt, w.W)
		}
		return
	}
	if d := cycles[0].at[0] - hsAt; d < w.W {
		e.Fail("C13/dwr-too-early", "first DWR %v after the handshake, WatchdogInterval is %v", d, w.W)
		return
	}
	prevEnd := hsAt
	for ci, c := range cycles {
		last := ci == len(cycles)-1
		s := c.at[0]
		if ci > 0 {
			if s-cycles[ci-1].at[0] < w.W {
				e.Fail("C13/dwr-too-early", "cycle %d started %v after cycle %d, WatchdogInterval is %v", ci, s-cycles[ci-1].at[0], ci-1, w.W)
				return
			}
		}
		for _, f := range failedAt {
			if f > prevEnd && f < s {
				prevEnd = f // a round given up on a write error: the next one is due W later
			}
		}
		if s > prevEnd+w.W+w.W/10 {
			e.Fail("C13/dwr-too-late", "cycle %d started at %v, the previous one ended at %v: more than WatchdogInterval %v later", ci, s, prevEnd, w.W)
			return
		}
		// (retransmissions are grouped by hop-by-hop id; a T flag on them would be legal)
		// reference: walk the wait windows (each opens when the transmission's write returned)
		t0 := c.end[0]
		r := 0
		ambiguous := false
		end := time.Duration(-1)
		expectClose := time.Duration(-1)
		for {
			// The engine delivers only after the library has settled, so a DWA
			// delivered at the very instant of a (re)transmission falls into the
			// window that transmission opens: t0 <= a < t0+I.
			acked := time.Duration(-1)
			for _, a := range acks {
				if a >= t0 && a < t0+w.I && (acked < 0 || a < acked) {
					acked = a
				}
			}
			if acked >= 0 {
				end = acked
				break
			}
			if r == w.R {
				expectClose = t0 + w.I
				break
			}
			r++
			if r < len(c.end) {
				t0 = c.end[r] // the retransmission's own write may have taken time
			} else {
				t0 += w.I
			}
		}
		_ = ambiguous
		wantTx := r + 1
		// a (re)transmission whose write failed ends the round there: nothing more is sent, no close
		aborted := time.Duration(-1)
		for _, f := range failedAt {
			nextStart := time.Duration(1 << 62)
			if ci+1 < len(cycles) {
				nextStart = cycles[ci+1].at[0]
			}
			if f > c.at[0] && f < nextStart && (end < 0 || f < end) {
				aborted = f
			}
		}
		if aborted >= 0 {
			if len(c.at) > wantTx {
				e.Fail("C13/unexpected-retransmission", "cycle %d: %d transmissions, the reference allows at most %d", ci, len(c.at), wantTx)
				return
			}
			prevEnd = aborted
			e.Probe("round-abandoned-on-write-error")
			continue
		}
		if last && closedAt < 0 && end < 0 {
			// the observation stopped in the middle of this cycle
			if len(c.at) > wantTx {
				e.Fail("C13/too-many-retransmissions", "cycle %d: %d transmissions, MaxRetransmits is %d", ci, len(c.at), w.R)
			}
			return
		}
		if len(c.at) != wantTx {
			if len(c.at) < wantTx {
				e.Fail("C13/missing-retransmission", "cycle %d (DWR at %v): %d transmission(s) observed, the reference expects %d (acks delivered at %v, R=%d I=%v)", ci, s, len(c.at), wantTx, acks, w.R, w.I)
			} else {
				e.Fail("C13/unexpected-retransmission", "cycle %d (DWR at %v): %d transmissions observed, the reference expects %d (acks delivered at %v, R=%d I=%v)", ci, s, len(c.at), wantTx, acks, w.R, w.I)
			}
			return
		}
		for i := 1; i < len(c.at); i++ {
			if gap := c.at[i] - c.end[i-1]; gap < w.I || gap > w.I+w.I/10 {
				e.Fail("C13/retransmit-spacing", "cycle %d: retransmission %d came %v after the previous transmission, RetransmitInterval is %v", ci, i, c.at[i]-c.at[i-1], w.I)
				return
			}
		}
		if expectClose >= 0 {
			if closedAt < 0 {
				e.Fail("C13/silent-peer-not-detected", "cycle %d: no success DWA within %d transmissions; the connection should have been closed at %v and is still open at %v", ci, w.R+1, expectClose, w.now())
				return
			}
			if closedAt < expectClose || closedAt > expectClose+w.I/10 {
				e.Fail("C13/close-time", "cycle %d: connection closed at %v, the reference expects %v", ci, closedAt, expectClose)
				return
			}
			e.Probe("silent-peer-closed")
			return
		}
		prevEnd = end
		e.Probe("cycle-acked")
	}
	if closedAt >= 0 {
		e.Fail("C13/responsive-peer-closed", "every watchdog cycle was acknowledged in time and the client closed the connection at %v", closedAt)
		return
	}
	if len(cycles) >= 20 {
		e.Probe("spared-20-cycles")
	}
}

// c10Client: the client side of C10 — application messages from the server
// before, instead of and directly behind its CEA.
func c10Client(e *Env) {
	t := e.T
	e.TrustWait = true
	w := newSmcWorld(e, false)
	defer w.teardown()
	s := drawHsScript(w)
	s.stallCER, s.disconnect, s.dwrStall, s.stallFor = 0, "", false, 0
	s.answerCER = 1
	if t.Chance(3, 4) {
		s.ceaKind = []string{"success", "success-vs"}[t.Draw(2)]
	}
	s.preApp = t.Chance(1, 2)
	s.pipelined = t.Chance(1, 2)
	if s.delay > w.I {
		s.delay = w.I / 2
	}
	e.NonTrivial()
	if !smcHandshake(w, s) {
		return
	}
	if s.preApp {
		e.Probe("app-before-cea-blocked")
	}
	if s.pipelined {
		e.Probe("app-behind-cea-dispatched")
	}
	smcAfter(w, s)
}

// c10ClientTwo: one Client (and state machine) used for two connections. The first
// connection completes its handshake and stays open; the second one is dialled and its
// peer sends application messages before (or instead of) answering the CER, while CEAs
// may arrive on the FIRST connection. Nothing that happens on connection 1 makes
// connection 2 "handshaken": no application handler may run for connection 2 until a
// success CEA has arrived on connection 2 itself.
func c10ClientTwo(e *Env) {
	t := e.T
	e.TrustWait = true
	w := newSmcWorld(e, false)
	s := hsScript{answerCER: 1, ceaKind: []string{"success", "success-vs"}[t.Draw(2)], delayClass: "quick", delay: time.Duration(t.Draw(3)) * w.I / 4}
	e.NonTrivial()
	if !smcHandshake(w, s) {
		w.teardown()
		return
	}
	var cer1 RefMsg
	for _, o := range w.obs {
		if o.msg.Cmd == cmdCE {
			cer1 = o.msg
		}
	}
	w2 := w.redial()
	local2 := w2.sc.LocalAddr().String()
	w2.dial()
	e.Quiesce()
	var cer2 *RefMsg
	for _, o := range w2.collect() {
		if o.msg.Cmd == cmdCE && o.msg.Flags&0x80 != 0 {
			m := o.msg
			cer2 = &m
		}
	}
	if cer2 == nil {
		if !e.Failed() {
			e.Fail("C12/no-cer-on-second-dial", "the second dial of the same Client wrote no CER")
		}
		w2.teardown()
		w.teardown()
		return
	}
	e.Act("second-dial", "")
	entersOn2 := func() int {
		w.mu.Lock()
		defer w.mu.Unlock()
		n := 0
		for _, l := range w.enterLocal {
			if l == local2 {
				n++
			}
		}
		return n
	}
	seq := 300
	ceaOn1 := false
	for i, n := 0, 1+t.Draw(4); i < n && !e.Failed(); i++ {
		switch t.Pick(3, 3, 1) {
		case 0:
			// a duplicate / late CEA on the first connection
			kind := []string{"success", "success-vs", "dup-success"}[t.Draw(3)]
			w.sc.Deliver(serverCEA(cer1, kind).Bytes())
			ceaOn1 = true
			e.Act("cea-on-first-connection", "%s", kind)
			e.Probe("cea-on-other-connection-during-dial")
		case 1:
			// an application message on the second connection, which has seen no CEA
			w2.sc.Deliver(appAnswer(seq).Bytes())
			seq++
			e.Act("app-on-second-connection", "")
		default:
			// application traffic on the first connection goes on meanwhile
			w.mu.Lock()
			before := len(w.enters)
			w.mu.Unlock()
			w.sc.Deliver(appAnswer(seq).Bytes())
			seq++
			e.Quiesce()
			w.mu.Lock()
			after := len(w.enters)
			w.mu.Unlock()
			if after != before+1 {
				e.Fail("C10/established-connection-not-served", "connection 1 had completed its handshake; an application answer arriving on it while the Client dials again ran %d handlers", after-before)
			}
			e.Act("app-on-first-connection", "")
		}
		e.Quiesce()
		if n := entersOn2(); n > 0 {
			e.Fail("C10/handler-ran-before-handshake/second-connection", "an application handler ran for a message on the Client's second connection, on which no CEA has arrived (CEA seen on the first connection meanwhile: %v)", ceaOn1)
		}
	}
	if !e.Failed() && !ceaOn1 && t.Chance(1, 2) {
		// now the peer of connection 2 answers: from here on its messages are dispatched
		w2.sc.Deliver(append(serverCEA(*cer2, "success").Bytes(), appAnswer(seq).Bytes()...))
		e.Quiesce()
		if entersOn2() != 1 {
			e.Fail("C10/handler-not-invoked/second-connection", "a success CEA and an application answer arrived on the second connection; the application handler ran %d time(s) for it", entersOn2())
		}
		e.Probe("second-connection-handshaken")
	}
	// let the second dial end (success, or time out), then hang up both
	for i := 0; i < w.R+4; i++ {
		w2.mu.Lock()
		done := w2.dialDone
		w2.mu.Unlock()
		if done || e.Failed() {
			break
		}
		w2.advance(w.I)
	}
	w2.teardown()
	w.teardown()
}

// c08ClientTwo: one Client with the watchdog enabled holds two established connections. An
// application handler blocks on the first for longer than the watchdog needs to start
// retransmitting there; messages arriving on the second connection must be dispatched all the same.
func c08ClientTwo(e *Env) {
	t := e.T
	e.TrustWait = false // a handler is held parked while the clock moves
	w := newSmcWorld(e, true)
	e.NonTrivial()
	if !smcHandshake(w, hsScript{answerCER: 1, ceaKind: "success", delayClass: "quick"}) {
		w.teardown()
		return
	}
	w2 := w.redial()
	local2 := w2.sc.LocalAddr().String()
	parked := false
	stuck := false
	// pump lets d of fake time pass, answering the watchdog requests of both connections
	pump := func(d time.Duration, until func() bool) {
		deadline := time.Now().Add(d)
		for !e.Failed() && !stuck {
			if !e.Quiesce() {
				stuck = true
				return
			}
			for _, x := range []*smcWorld{w, w2} {
				for _, o := range x.collect() {
					switch {
					case o.msg.Cmd == cmdDW && o.msg.Flags&0x80 != 0 && !(x == w && parked):
						x.sc.Deliver(serverDWA(o.msg, 2001).Bytes())
					case o.msg.Cmd == cmdCE && o.msg.Flags&0x80 != 0 && x == w2:
						x.sc.Deliver(serverCEA(o.msg, "success").Bytes())
					}
				}
			}
			if !e.Quiesce() {
				stuck = true
				return
			}
			if (until != nil && until()) || !time.Now().Before(deadline) {
				return
			}
			e.Advance(time.Until(deadline)) // returns at the next library write
		}
	}
	w2.dial()
	pump(time.Duration(w.R+2)*w.I, func() bool { w2.mu.Lock(); defer w2.mu.Unlock(); return w2.dialDone })
	w2.mu.Lock()
	ok2 := w2.dialDone && w2.dialErr == nil
	w2.mu.Unlock()
	if e.Failed() || stuck || !ok2 {
		if !e.Failed() && !ok2 {
			e.Fail("C12/second-dial-failed", "the Client's second dial got a success CEA in reply to its CER and did not return a connection")
		}
		w2.teardown()
		w.teardown()
		return
	}
	// the application handler of connection 1 blocks
	w.mu.Lock()
	w.parkSeq = 700
	w.mu.Unlock()
	w.sc.Deliver(appAnswer(700).Bytes())
	e.Quiesce()
	w.mu.Lock()
	parked = w.gate != nil
	w.mu.Unlock()
	if !parked {
		e.Fail("C10/handler-not-invoked", "connection 1 is established; an application answer arriving on it ran no handler")
	}
	e.Act("handler-parked-on-first-connection", "")
	// ... for longer than the watchdog interval plus a retransmit interval or two
	pump(w.W+time.Duration(1+t.Draw(2))*w.I+w.I/2, nil)
	entersOn2 := func() int {
		w.mu.Lock()
		defer w.mu.Unlock()
		n := 0
		for _, l := range w.enterLocal {
			if l == local2 {
				n++
			}
		}
		return n
	}
	if !e.Failed() && !stuck {
		before := entersOn2()
		w2.sc.Deliver(appAnswer(701).Bytes())
		e.Quiesce()
		if w2.sc.Closed() {
			e.Fail("C13/responsive-peer-closed", "connection 2's peer answered every DWR and the client closed the connection")
		} else if entersOn2() != before+1 {
			e.Fail("C08/other-connection-delayed/client", "an application handler blocks on connection 1 of a Client; an answer arriving on its connection 2 %v later was not dispatched", w.W+w.I)
		}
		e.Probe("second-connection-served-while-first-handler-blocked")
	}
	if stuck && !e.Failed() {
		e.Fail("C08/other-connection-delayed/lock-wait", "with an application handler blocked on connection 1 a library goroutine came to wait on a lock (fake time cannot advance): nothing is dispatched on any connection of the Client")
	}
	w.mu.Lock()
	g := w.gate
	w.gate, w.parkSeq = nil, 0
	w.mu.Unlock()
	if g != nil {
		e.ParkEnd(true)
		close(g)
		e.Quiesce()
	}
	w2.teardown()
	w.teardown()
}

// ---------------------------------------------------------------- C12 sweep

var c12SweepKinds = []string{"success", "success-vs", "failed", "failed-3xxx", "success-no-sharing", "success-no-sharing-vs", "success-appless", "no-result-code", "no-origin-host", "dup-success", "success-vs-two", "success-vs-two-rev", "success-dual-auth", "success-dual-acct"}
var c12SweepDelays = []string{"immediate", "half", "deadline-1ns", "deadline+1ns", "on-deadline", "after-budget"}

type c12Case struct {
	R, k  int
	kind  string
	delay string
}

var c12Cases []c12Case

func c12SweepN(thorough bool) int {
	if c12Cases == nil {
		for R := 0; R <= 3; R++ {
			for k := 0; k <= R+1; k++ {
				for _, kind := range c12SweepKinds {
					for _, d := range c12SweepDelays {
						c12Cases = append(c12Cases, c12Case{R, k, kind, d})
					}
				}
			}
		}
	}
	return len(c12Cases)
}

func c12Sweep(e *Env) {
	c12SweepN(true)
	c := c12Cases[e.Case]
	e.TrustWait = true
	e.NonTrivial()
	w := newSmcWorld(e, false)
	w.R, w.I = c.R, time.Second
	w.cli.MaxRetransmits, w.cli.RetransmitInterval = uint(c.R), time.Second
	s := hsScript{answerCER: c.k, ceaKind: c.kind, delayClass: c.delay}
	switch c.delay {
	case "half":
		s.delay = w.I / 2
	case "deadline-1ns":
		s.delay = w.I - 1
	case "deadline+1ns":
		s.delay = w.I + 1
	case "on-deadline":
		s.delay = w.I
	case "after-budget":
		s.delay = w.I*time.Duration(w.R+2) + time.Millisecond
	}
	s.extras = []string{"dup-success", "failed"}
	s.nAppAfter = 1
	e.Act("sweep", "R=%d answer=%d kind=%s delay=%s", c.R, c.k, c.kind, c.delay)
	ok := smcHandshake(w, s)
	if ok {
		smcAfter(w, s)
	}
	w.teardown()
}

// ---------------------------------------------------------------- C13 sweep

var c13SweepPlans = []dwPlan{
	{kind: "ack", delay: 0}, {kind: "ack", delay: time.Second / 2}, {kind: "ack", delay: time.Second - 1},
	{kind: "ack-retrans", j: 1, delay: time.Microsecond}, {kind: "fail-then-ack", delay: time.Second / 2},
	{kind: "both"}, {kind: "late"}, {kind: "silent"},
}

func c13SweepN(thorough bool) int { return 3 * (seqCount(len(c13SweepPlans), 3) - 1) }

func c13Sweep(e *Env) {
	k := e.Case
	R := k % 3
	seq := decodeSeq(k/3+1, len(c13SweepPlans))
	var plans []dwPlan
	for _, s := range seq {
		p := c13SweepPlans[s]
		if R == 0 && (p.kind == "ack-retrans" || p.kind == "both" || p.kind == "late") {
			p = dwPlan{kind: "ack", delay: time.Microsecond} // needs a retransmission to exist
		}
		plans = append(plans, p)
		if p.kind == "silent" {
			break
		}
	}
	e.NonTrivial()
	c13ClientX(e, false, &c13Forced{R: R, plans: plans})
}
