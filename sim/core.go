// Package dsim is the deterministic simulator for go-diameter (see /verif/DESIGN.md).
//
// One integer decides a run: every choice made by a scenario is a Tape.Draw, the
// drawn values are recorded, and a replay is the same scenario reading the
// recorded values instead of the PRNG.
package dsim

import (
	"bytes"
	"fmt"
	"hash/fnv"
	"sort"
	"strings"
	"sync"
	"sync/atomic"
	"time"
)

// ---------------------------------------------------------------- PRNG / tape

func splitmix64(x *uint64) uint64 {
	*x += 0x9e3779b97f4a7c15
	z := *x
	z = (z ^ (z >> 30)) * 0xbf58476d1ce4e5b9
	z = (z ^ (z >> 27)) * 0x94d049bb133111eb
	return z ^ (z >> 31)
}

type xoshiro struct{ s [4]uint64 }

func newXoshiro(seed uint64) *xoshiro {
	x := &xoshiro{}
	sm := seed
	for i := range x.s {
		x.s[i] = splitmix64(&sm)
	}
	return x
}

func rotl(x uint64, k uint) uint64 { return (x << k) | (x >> (64 - k)) }

func (x *xoshiro) next() uint64 {
	r := rotl(x.s[1]*5, 7) * 9
	t := x.s[1] << 17
	x.s[2] ^= x.s[0]
	x.s[3] ^= x.s[1]
	x.s[1] ^= x.s[2]
	x.s[0] ^= x.s[3]
	x.s[2] ^= t
	x.s[3] = rotl(x.s[3], 45)
	return r
}

// mixSeed derives the seed of run i of a property from the batch seed.
func mixSeed(base uint64, prop string, stream string, i uint64) uint64 {
	h := fnv.New64a()
	h.Write([]byte(prop))
	h.Write([]byte{0})
	h.Write([]byte(stream))
	x := base ^ h.Sum64()
	a := splitmix64(&x)
	x ^= i * 0xd1342543de82ef95
	b := splitmix64(&x)
	return a ^ b
}

// Tape is the single source of choices of a run.
type Tape struct {
	rng    *xoshiro
	replay []uint32 // when non-nil the draws come from here (exhausted => 0)
	isRep  bool
	pos    int
	Rec    []uint32 // values actually returned, in order
	Marks  []int    // Rec offsets at which a scenario step began (for step deletion)
}

func NewTape(seed uint64) *Tape { return &Tape{rng: newXoshiro(seed)} }

func ReplayTape(vals []uint32) *Tape { return &Tape{replay: vals, isRep: true} }

// Draw returns a value in [0,n). By convention 0 is the benign/simplest choice.
func (t *Tape) Draw(n int) int {
	if n <= 1 {
		// still consumes a slot so that tapes stay aligned when a bound changes
		t.take()
		t.Rec = append(t.Rec, 0)
		return 0
	}
	v := int(t.take() % uint64(n))
	t.Rec = append(t.Rec, uint32(v))
	return v
}

func (t *Tape) take() uint64 {
	if t.isRep {
		if t.pos < len(t.replay) {
			v := t.replay[t.pos]
			t.pos++
			return uint64(v)
		}
		t.pos++
		return 0
	}
	t.pos++
	return t.rng.next() >> 11
}

// Chance is true with probability num/den; a drawn 0 is false.
func (t *Tape) Chance(num, den int) bool {
	if num <= 0 {
		t.Draw(1)
		return false
	}
	return t.Draw(den) >= den-num
}

// Range returns a value in [lo,hi] (inclusive); a drawn 0 gives lo.
func (t *Tape) Range(lo, hi int) int {
	if hi <= lo {
		t.Draw(1)
		return lo
	}
	return lo + t.Draw(hi-lo+1)
}

// Pick chooses an index by weight; index 0 should be the benign option.
func (t *Tape) Pick(weights ...int) int {
	sum := 0
	for _, w := range weights {
		sum += w
	}
	if sum <= 0 {
		t.Draw(1)
		return 0
	}
	v := t.Draw(sum)
	for i, w := range weights {
		if v < w {
			return i
		}
		v -= w
	}
	return len(weights) - 1
}

// Mark notes the start of a scenario step.
func (t *Tape) Mark() { t.Marks = append(t.Marks, len(t.Rec)) }

// Bytes returns n pseudo-random bytes that cost a single tape slot.
func (t *Tape) Bytes(n int) []byte {
	s := uint64(t.Draw(1 << 30))
	b := make([]byte, n)
	x := s*2654435761 + 12345
	for i := range b {
		b[i] = byte(splitmix64(&x))
	}
	return b
}

// ---------------------------------------------------------------- violations

// Violation is a property violation observed by an oracle.
type Violation struct {
	Sig    string `json:"sig"`    // stable class string
	Detail string `json:"detail"` // human-readable detail
}

// ---------------------------------------------------------------- per-run env

// Env carries everything a scenario needs for one run.
type Env struct {
	Prop     string
	Scen     string
	Case     int // sweep case index, -1 for seeded search
	Seed     uint64
	Thorough bool
	T        *Tape

	mu      sync.Mutex // guards the observation log and counters
	seq     uint64
	kinds   []string // action/fault kind sequence (hashed for distinctness)
	detail  []string // bounded human readable trace
	Faults  map[string]int
	Probes  map[string]int
	viol    *Violation
	nontriv bool
	logbuf  bytes.Buffer // captured library log output

	seamParks atomic.Int32 // goroutines parked at any harness seam
	libParks  atomic.Int32 // of those, parked by the engine while inside library code (may hold a library lock)
	baseG     int          // runtime.NumGoroutine() when the bubble body started

	wake    chan struct{} // poked by seams when the library did something observable
	simSpan time.Duration
	inBub   bool
	TrustWait bool // the scenario never parks goroutines inside library code (see Quiesce)
	forceDump bool // always inspect goroutine states (scenarios whose faults hold library locks)
	maxStep int
	steps   int
}

func newEnv(prop, scen string, cse int, seed uint64, thorough bool, t *Tape) *Env {
	return &Env{Prop: prop, Scen: scen, Case: cse, Seed: seed, Thorough: thorough, T: t,
		Faults: map[string]int{}, Probes: map[string]int{}}
}

// Seq returns the next global observation sequence number.
func (e *Env) Seq() uint64 {
	e.mu.Lock()
	e.seq++
	s := e.seq
	e.mu.Unlock()
	return s
}

// Act records an engine action (part of the canonical trace).
func (e *Env) Act(kind string, format string, a ...interface{}) {
	e.mu.Lock()
	e.kinds = append(e.kinds, kind)
	if len(e.detail) < 400 {
		e.detail = append(e.detail, kind+" "+fmt.Sprintf(format, a...))
	}
	e.mu.Unlock()
}

// Obs records an observation coming from a seam (not part of the kind hash).
func (e *Env) Obs(format string, a ...interface{}) {
	e.mu.Lock()
	if len(e.detail) < 400 {
		e.detail = append(e.detail, "  obs "+fmt.Sprintf(format, a...))
	}
	e.mu.Unlock()
}

// Fault counts a fault that actually fired.
func (e *Env) Fault(kind string) {
	e.mu.Lock()
	e.Faults[kind]++
	e.kinds = append(e.kinds, "F:"+kind)
	e.nontriv = true
	e.mu.Unlock()
}

// Probe counts a rare condition that was reached.
func (e *Env) Probe(name string) {
	e.mu.Lock()
	e.Probes[name]++
	e.mu.Unlock()
}

// NonTrivial marks the run as having had a real choice between actors.
func (e *Env) NonTrivial() {
	e.mu.Lock()
	e.nontriv = true
	e.mu.Unlock()
}

// Fail records the first violation of the run.
func (e *Env) Fail(sig string, format string, a ...interface{}) {
	e.mu.Lock()
	if e.viol == nil {
		e.viol = &Violation{Sig: sig, Detail: fmt.Sprintf(format, a...)}
	}
	e.mu.Unlock()
}

func (e *Env) Failed() bool {
	e.mu.Lock()
	defer e.mu.Unlock()
	return e.viol != nil
}

// LogText returns the library log output captured so far.
func (e *Env) LogText() string {
	e.mu.Lock()
	defer e.mu.Unlock()
	return e.logbuf.String()
}

type envLogWriter struct{ e *Env }

func (w envLogWriter) Write(p []byte) (int, error) {
	w.e.mu.Lock()
	if w.e.logbuf.Len() < 1<<16 {
		w.e.logbuf.Write(p)
	}
	w.e.mu.Unlock()
	return len(p), nil
}

func (e *Env) traceHash() uint64 {
	h := fnv.New64a()
	h.Write([]byte(e.Scen))
	for _, k := range e.kinds {
		h.Write([]byte{0})
		h.Write([]byte(k))
	}
	return h.Sum64()
}

// ---------------------------------------------------------------- registry

// Scenario is one world + workload + oracle of a property.
type Scenario struct {
	Name   string
	Weight int  // relative frequency in the seeded search (0 = sweep only)
	Bubble bool // run inside a testing/synctest bubble
	Run    func(e *Env)
	// SweepN, when set, gives the number of enumerated cases for the tier; the
	// scenario then reads e.Case. Sweeps only run in the thorough tier unless
	// QuickSweep is set.
	SweepN     func(thorough bool) int
	QuickSweep bool
	Exhaustive bool // the sweep enumerates its (stated) finite space completely
	SweepNote  string
}

// Property groups the scenarios deciding one property.
type Property struct {
	ID         string
	Level      string // evidence level
	Rule       string // how cases are generated and what makes one non-trivial
	Real       []string
	Stubbed    []string
	Assume     []string
	Scenarios  []*Scenario
	MustProbes []string // probes that must be non-zero in a thorough run
}

var registry = map[string]*Property{}

func register(p *Property) { registry[p.ID] = p }

func (p *Property) scenario(name string) *Scenario {
	for _, s := range p.Scenarios {
		if s.Name == name {
			return s
		}
	}
	return nil
}

func (p *Property) pickScenario(seed uint64) *Scenario {
	sum := 0
	for _, s := range p.Scenarios {
		sum += s.Weight
	}
	x := seed ^ 0x5851f42d4c957f2d
	v := int(splitmix64(&x) % uint64(sum))
	for _, s := range p.Scenarios {
		if v < s.Weight {
			return s
		}
		v -= s.Weight
	}
	return p.Scenarios[0]
}

func sortedKeys(m map[string]int) []string {
	ks := make([]string, 0, len(m))
	for k := range m {
		ks = append(ks, k)
	}
	sort.Strings(ks)
	return ks
}

func short(s string, n int) string {
	s = strings.ReplaceAll(s, "\n", "\\n")
	if len(s) > n {
		return s[:n] + "..."
	}
	return s
}

// ParkBegin/ParkEnd bracket every blocking wait at a harness seam. lib is true
// when the goroutine is parked by the engine while inside library code.
func (e *Env) ParkBegin(lib bool) {
	e.seamParks.Add(1)
	if lib {
		e.libParks.Add(1)
	}
}

func (e *Env) ParkEnd(lib bool) {
	e.seamParks.Add(-1)
	if lib {
		e.libParks.Add(-1)
	}
}
