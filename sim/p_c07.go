package dsim

import (
	"bytes"
	"fmt"
	"io"
	"net"
	"sync"
	"sync/atomic"
	"time"

	"github.com/fiorix/go-diameter/v4/diam"
	"github.com/fiorix/go-diameter/v4/diam/datatype"
)

// C07 — concurrent and retried writes deliver each message whole, exactly once.

func init() {
	register(&Property{
		ID: "C07", Level: "exploration",
		Rule: "concurrent half: 1-6 writer tasks with 1-5 marked messages each (sizes around the 1 KiB pooled serialisation buffer and the 4 KiB bufio buffer, via Message.WriteTo or raw Conn.Write) on one real connection; the engine decides which writer proceeds, arms mid-write stalls and write errors on the transport and releases them; " +
			"retry half: WriteToWithRetry / WriteToStreamWithRetry against scripted writers with drawn (bytes accepted, nil | temporary | permanent | plain error) outcome sequences and retry budgets 0-5, also through a real diam.Conn; " +
			"non-trivial = a stall or error fault fired or two writers were in flight at once; distinct = hash of the action/fault-kind sequence",
		Real:    []string{"Message.WriteTo / WriteToStreamWithRetry, writeRetry, writeStreamRetry, writerBufferPool", "response.Write / WriteStream and its mutex", "conn.serve (idle reader)"},
		Stubbed: []string{"transport: SimConn with stall/error faults, SimWriter / SimStreamWriter with outcome scripts", "writer tasks: harness goroutines released one at a time by the engine"},
		Assume:  []string{"a writer blocked on the connection's write lock is recognised from the goroutine dump (sync.Mutex.Lock state)"},
		Scenarios: []*Scenario{
			{Name: "concurrent", Weight: 5, Bubble: true, Run: c07Concurrent},
			{Name: "retry", Weight: 4, Run: c07Retry},
			{Name: "concurrent-sctp", Weight: 2, Bubble: true, Run: c07Sctp},
			{Name: "retry-conn", Weight: 2, Bubble: true, Run: c07RetryConn},
			{Name: "retry-write-timeout", Weight: 1, Bubble: true, Run: c07RetryTimeout},
			{Name: "slow-peer-with-read-timeout", Weight: 1, Bubble: true, Run: c07ReadTimeoutStall},
			{Name: "write-timeout-window", Weight: 1, Bubble: true, Run: c07WriteWindow},
			{Name: "message-object-written-again", Weight: 1, Bubble: true, Run: c07Reuse},
			{Name: "retry-among-other-writers", Weight: 1, Bubble: true, Run: c07RetryAmongWriters},
			{Name: "sweep-retry", Run: c07Sweep, SweepN: c07SweepN, QuickSweep: true, Exhaustive: true,
				SweepNote: "every sequence of up to 3 outcomes over {accept 0, 1, half, all} x {temporary, permanent, plain error} (then success), x retry budgets 0..3 x {io.Writer, MultistreamWriter}: 15 080 cases"},
		},
		MustProbes: []string{"writer-blocked-on-lock", "stall-with-queued-writers", "retry-resumed", "sctp-concurrent-writes", "sctp-write-stall", "retry-after-write-timeout", "write-timeout", "sctp-retry-while-reader-elsewhere", "answer-stalled-past-read-timeout", "second-write-late-in-window", "message-rewritten-after-edit", "writer-ran-between-retry-attempts"},
	})
}

type wop struct {
	w, s     int
	api      string // "writeto", "raw"
	want     []byte
	msg      *diam.Message
	inv, ret uint64
	n        int64
	err      error
	started  bool
	done     bool
}

type wtask struct {
	idx  int
	ops  []*wop
	next int
	gate chan struct{}
	idle bool // parked at the gate
	busy bool // an operation is in flight
}

func c07Sizes(t *Tape) int {
	switch t.Pick(4, 3, 3, 2) {
	case 0:
		return t.Range(0, 200)
	case 1:
		return []int{960, 980, 992, 996, 1000, 1004, 1020, 1030}[t.Draw(8)]
	case 2:
		return []int{4040, 4060, 4064, 4068, 4072, 4100}[t.Draw(6)]
	default:
		return t.Range(4100, 9000)
	}
}

func c07Concurrent(e *Env) {
	t := e.T
	e.maxStep = 200
	sc := newSimConn(e, "c0", drawAddr(t, 3868), drawAddr(t, 40000))
	mux := diam.NewServeMux()
	var conn diam.Conn
	var conns []diam.Conn
	var lis *SimListener
	served := t.Chance(1, 3)
	if served {
		// server side: the Conn is the one handed to a handler
		lis = newSimListener(e)
		got := make(chan diam.Conn, 4)
		mux.HandleFunc("ALL", func(c diam.Conn, m *diam.Message) {
			select {
			case got <- c:
			default:
			}
		})
		srv := &diam.Server{Handler: mux, Dict: simDict()}
		go srv.Serve(lis)
		lis.Connect(sc)
		// one request, or several: each handler keeps the Conn it was given and its task
		// writes through that one (answers produced later, by goroutines the handlers left behind)
		nHello := 1
		if t.Chance(1, 2) {
			nHello = t.Range(2, 3)
			e.Probe("conns-of-several-handler-calls")
		}
		for h := 0; h < nHello; h++ {
			hello := RefMsg{Cmd: 900, Flags: 0x80, HbH: uint32(h + 1), E2E: uint32(h + 1), AVPs: []RefAVP{{Code: avpSimOctets, Data: []byte("hello")}}}
			sc.Deliver(hello.Bytes())
			e.Quiesce()
			select {
			case c := <-got:
				conns = append(conns, c)
			default:
				e.Harness("served connection did not reach the handler")
			}
		}
		conn = conns[0]
	} else {
		var err error
		conn, err = diam.NewConn(sc, "sim", mux, simDict())
		if err != nil {
			e.Harness("NewConn: %v", err)
		}
	}
	nw := t.Range(1, 6)
	var mu sync.Mutex
	tasks := make([]*wtask, nw)
	for i := range tasks {
		tk := &wtask{idx: i, gate: make(chan struct{})}
		nops := t.Range(1, 5)
		for s := 0; s < nops; s++ {
			size := c07Sizes(t)
			payload := marker(i, s, size, byte(17*i+s))
			hbh, e2e := uint32(1000*i+s+1), uint32(7000+100*i+s)
			ref := RefMsg{Cmd: 900, Flags: 0x80, App: 0, HbH: hbh, E2E: e2e, AVPs: []RefAVP{{Code: avpSimOctets, Data: payload}}}
			op := &wop{w: i, s: s, want: ref.Bytes(), api: "writeto"}
			if t.Chance(1, 4) {
				op.api = "raw"
			} else {
				m := diam.NewMessage(900, diam.RequestFlag, 0, hbh, e2e, simDict())
				if t.Chance(1, 3) {
					// an AVP given as a struct literal (code, flags, data: the documented minimum)
					m.AddAVP(&diam.AVP{Code: avpSimOctets, Data: datatype.OctetString(payload)})
					e.Probe("avp-struct-literal")
				} else {
					m.NewAVP(avpSimOctets, 0, 0, datatype.OctetString(payload))
				}
				op.msg = m
			}
			tk.ops = append(tk.ops, op)
		}
		tasks[i] = tk
		go func(tk *wtask) {
			conn := conn
			if len(conns) > 1 {
				conn = conns[tk.idx%len(conns)]
			}
			for _, op := range tk.ops {
				mu.Lock()
				tk.idle = true
				e.ParkBegin(false)
				mu.Unlock()
				<-tk.gate
				op.inv = e.Seq()
				if op.api == "raw" {
					n, err := conn.Write(op.want)
					op.n, op.err = int64(n), err
				} else {
					op.n, op.err = op.msg.WriteTo(conn)
				}
				op.ret = e.Seq()
				mu.Lock()
				op.done = true
				tk.busy = false
				mu.Unlock()
			}
		}(tk)
	}
	e.Quiesce()
	errFaultUsed := false
	start := func(tk *wtask) {
		mu.Lock()
		op := tk.ops[tk.next]
		tk.next++
		tk.idle = false
		tk.busy = true
		op.started = true
		e.ParkEnd(false)
		mu.Unlock()
		e.Act("start", "w%d/m%d %s %dB", op.w, op.s, op.api, len(op.want))
		tk.gate <- struct{}{}
	}
	inflight := func() int {
		mu.Lock()
		defer mu.Unlock()
		n := 0
		for _, tk := range tasks {
			if tk.busy {
				n++
			}
		}
		return n
	}
	for e.Step() {
		type act struct {
			kind string
			tk   *wtask
			w    int
		}
		var acts []act
		mu.Lock()
		for _, tk := range tasks {
			if tk.idle && tk.next < len(tk.ops) {
				acts = append(acts, act{"start", tk, 6})
			}
		}
		mu.Unlock()
		if sc.Stalled() {
			acts = append(acts, act{"resume", nil, 3})
		} else if len(acts) > 0 {
			acts = append(acts, act{"arm-stall", nil, 3})
			if !errFaultUsed {
				acts = append(acts, act{"arm-error", nil, 1})
			}
		}
		if len(acts) == 0 {
			break
		}
		ws := make([]int, len(acts))
		for i, a := range acts {
			ws[i] = a.w
		}
		a := acts[t.Pick(ws...)]
		switch a.kind {
		case "start":
			start(a.tk)
		case "resume":
			sc.Resume()
			e.Act("resume", "")
		case "arm-stall":
			sc.ArmWriteFault(&WriteFault{Kind: "stall", After: t.Pick(1, 1, 2, 2) * t.Range(0, 1200)})
			e.Act("arm-stall", "")
			continue
		case "arm-error":
			errFaultUsed = true
			sc.ArmWriteFault(&WriteFault{Kind: []string{"temp", "perm", "plain"}[t.Draw(3)], After: t.Range(0, 900)})
			e.Act("arm-error", "")
			continue
		}
		durable := e.Quiesce()
		if n := inflight(); n >= 2 {
			e.NonTrivial()
			if !durable {
				e.Probe("writer-blocked-on-lock")
			}
			if sc.Stalled() && n >= 3 {
				e.Probe("stall-with-queued-writers")
			}
		}
		if e.Failed() {
			break
		}
	}
	// drain: no more faults, release everything, run every remaining operation
	for round := 0; round < 100; round++ {
		progress := false
		if sc.Stalled() {
			sc.Resume()
			progress = true
		}
		mu.Lock()
		var idle []*wtask
		for _, tk := range tasks {
			if tk.idle && tk.next < len(tk.ops) {
				idle = append(idle, tk)
			}
		}
		mu.Unlock()
		for _, tk := range idle {
			start(tk)
			progress = true
		}
		e.Quiesce()
		if !progress {
			break
		}
	}
	// teardown
	defer func() {
		sc.EndRead(net.ErrClosed, false)
		if lis != nil {
			lis.Close()
		}
		e.Quiesce()
	}()
	if e.Failed() {
		return
	}
	// ---- oracle
	var all []*wop
	for _, tk := range tasks {
		for _, op := range tk.ops {
			if !op.done {
				e.Fail("C07/write-never-returned", "writer %d message %d: the write did not return after all stalls were released", op.w, op.s)
				return
			}
			all = append(all, op)
		}
	}
	full := sc.Written()
	// Bytes accepted by a transport Write that then reported an error are a torn
	// fragment by construction; take them out using the transport's own records
	// and require the rest to be a sequence of whole messages.
	var log []byte
	var frags [][]byte
	cut := 0
	for _, r := range sc.WriteRecs() {
		if r.Err != "" && r.Err != "closed during stall" {
			log = append(log, full[cut:r.Start]...)
			frags = append(frags, full[r.Start:r.Start+r.N])
			cut = r.Start + r.N
		}
	}
	log = append(log, full[cut:]...)
	pos := map[[2]int]int{}
	rest := log
	idx := 0
	var torn []byte
	for len(rest) > 0 {
		msg, r2, st := refFrame(rest)
		if st != "ok" {
			torn = rest
			break
		}
		rm, err := refParse(msg)
		if err != nil || len(rm.AVPs) == 0 {
			e.Fail("C07/garbled-message", "message #%d on the wire does not parse: %v", idx, err)
			return
		}
		w, s, ok := parseMarker(rm.AVPs[0].Data)
		if !ok || w >= len(tasks) || s >= len(tasks[w].ops) {
			e.Fail("C07/garbled-message", "message #%d on the wire carries no valid writer marker", idx)
			return
		}
		if !bytes.Equal(msg, tasks[w].ops[s].want) {
			e.Fail("C07/interleaved-or-corrupt", "message #%d on the wire (writer %d seq %d) differs from what that writer wrote", idx, w, s)
			return
		}
		if _, dup := pos[[2]int{w, s}]; dup {
			e.Fail("C07/duplicate-message", "writer %d message %d appears twice on the wire", w, s)
			return
		}
		pos[[2]int{w, s}] = idx
		idx++
		rest = r2
	}
	var failed []*wop
	for _, op := range all {
		if op.err != nil {
			failed = append(failed, op)
		}
	}
	if torn != nil {
		e.Fail("C07/torn-message", "the wire holds %d bytes that are neither a whole message nor part of a write the transport failed", len(torn))
		return
	}
	for _, f := range frags {
		okTorn := len(f) == 0
		for _, op := range failed {
			if len(f) <= len(op.want) && bytes.Equal(f, op.want[:len(f)]) {
				okTorn = true
			}
		}
		if !okTorn {
			e.Fail("C07/torn-message", "the transport accepted %d bytes before failing a write, and they are not the beginning of a message whose Write reported an error", len(f))
			return
		}
	}
	for _, op := range all {
		p, onWire := pos[[2]int{op.w, op.s}]
		_ = p
		if op.err == nil {
			if !onWire {
				e.Fail("C07/lost-message", "writer %d message %d: Write returned success (%d bytes) but the message is not on the wire", op.w, op.s, op.n)
				return
			}
			if int(op.n) != len(op.want) {
				e.Fail("C07/wrong-count", "writer %d message %d: Write returned n=%d for a %d-byte message", op.w, op.s, op.n, len(op.want))
				return
			}
		}
	}
	// per-writer order and real-time order
	for _, a := range all {
		pa, oka := pos[[2]int{a.w, a.s}]
		if !oka {
			continue
		}
		for _, b := range all {
			pb, okb := pos[[2]int{b.w, b.s}]
			if !okb || a == b {
				continue
			}
			if a.w == b.w && a.s < b.s && pa > pb {
				e.Fail("C07/writer-order", "writer %d: message %d is on the wire after message %d", a.w, a.s, b.s)
				return
			}
			if a.ret != 0 && b.inv != 0 && a.ret < b.inv && pa > pb {
				e.Fail("C07/realtime-order", "write w%d/m%d returned before w%d/m%d was invoked but follows it on the wire", a.w, a.s, b.w, b.s)
				return
			}
		}
	}
}

// ---------------------------------------------------------------- retry half

type outcome struct {
	accept int
	kind   string // "", "temp", "perm", "plain"
}

func mkErr(kind string) error {
	switch kind {
	case "temp":
		return &simNetErr{msg: "sim: temporary write error", temp: true}
	case "perm":
		return &simNetErr{msg: "sim: permanent write error", temp: false}
	case "plain":
		return fmt.Errorf("sim: plain write error")
	}
	return nil
}

// scriptWriter is an io.Writer with a scripted outcome per call.
type scriptWriter struct {
	script   []outcome
	calls    [][]byte
	streams  []uint
	accepted []byte
}

func (s *scriptWriter) do(p []byte) (int, error) {
	i := len(s.calls)
	s.calls = append(s.calls, append([]byte{}, p...))
	if i >= len(s.script) {
		s.accepted = append(s.accepted, p...)
		return len(p), nil
	}
	o := s.script[i]
	n := o.accept
	if n > len(p) || o.kind == "" {
		n = len(p)
	}
	s.accepted = append(s.accepted, p[:n]...)
	return n, mkErr(o.kind)
}

func (s *scriptWriter) Write(p []byte) (int, error) {
	s.streams = append(s.streams, diam.InvalidStreamID) // a plain Write names no stream
	return s.do(p)
}

// scriptStreamWriter additionally implements diam.MultistreamWriter.
type scriptStreamWriter struct {
	scriptWriter
	cur uint
}

func (s *scriptStreamWriter) WriteStream(p []byte, stream uint) (int, error) {
	s.streams = append(s.streams, stream)
	return s.do(p)
}
func (s *scriptStreamWriter) CurrentWriterStream() uint { return s.cur }
func (s *scriptStreamWriter) ResetWriterStream()        { s.cur = diam.InvalidStreamID }
func (s *scriptStreamWriter) SetWriterStream(n uint) uint {
	o := s.cur
	s.cur = n
	return o
}

func drawScript(e *Env, msgLen int) []outcome {
	t := e.T
	n := t.Range(0, 5)
	var sc []outcome
	for i := 0; i < n; i++ {
		k := []string{"temp", "temp", "temp", "perm", "plain"}[t.Pick(4, 2, 2, 1, 1)]
		acc := 0
		switch t.Pick(2, 3, 1) {
		case 1:
			acc = t.Range(1, msgLen)
		case 2:
			acc = msgLen
		}
		sc = append(sc, outcome{acc, k})
		e.Fault("write-" + k)
	}
	return sc
}

// retryModel is the reference: what must be sent and returned for a script.
func retryModel(msg []byte, script []outcome, retries int) (attempts [][]byte, total int, kind string) {
	rem := msg
	for i := 0; ; i++ {
		attempts = append(attempts, rem)
		if i >= len(script) {
			return attempts, total + len(rem), ""
		}
		o := script[i]
		n := o.accept
		if n > len(rem) {
			n = len(rem)
		}
		total += n
		if retries == 0 || o.kind != "temp" {
			return attempts, total, o.kind
		}
		rem = rem[n:]
		retries--
	}
}

func c07Retry(e *Env) {
	t := e.T
	size := c07Sizes(t)
	retries := t.Range(0, 5)
	want := RefMsg{Cmd: 901, Flags: 0x80, HbH: 77, E2E: 88, AVPs: []RefAVP{{Code: avpSimOctets, Data: marker(0, 0, size, 3)}}}.Bytes()
	script := drawScript(e, len(want))
	c07RetryCase(e, size, retries, script, t.Chance(1, 2), uint(t.Draw(16)))
}

// c07RetryCase runs one retried write against a scripted writer and checks it against the reference model.
func c07RetryCase(e *Env, size, retries int, script []outcome, multi bool, stream uint) {
	payload := marker(0, 0, size, 3)
	m := diam.NewMessage(901, diam.RequestFlag, 0, 77, 88, simDict())
	m.NewAVP(avpSimOctets, 0, 0, datatype.OctetString(payload))
	want := RefMsg{Cmd: 901, Flags: 0x80, HbH: 77, E2E: 88, AVPs: []RefAVP{{Code: avpSimOctets, Data: payload}}}.Bytes()
	e.Act("retry", "len=%d retries=%d script=%v multi=%v", len(want), retries, script, multi)
	var sw *scriptWriter
	var n int64
	var err error
	var streams []uint
	func() {
		defer func() {
			if r := recover(); r != nil {
				e.Fail("C07/retry-panic", "WriteToWithRetry panicked: %v", r)
			}
		}()
		if multi {
			w := &scriptStreamWriter{scriptWriter: scriptWriter{script: script}}
			sw = &w.scriptWriter
			var nn int
			nn, err = m.WriteToStreamWithRetry(w, stream, uint(retries))
			n = int64(nn)
			streams = w.scriptWriter.streams
		} else {
			w := &scriptWriter{script: script}
			sw = w
			n, err = m.WriteToWithRetry(w, uint(retries))
		}
	}()
	if e.Failed() {
		return
	}
	c07CheckRetry(e, "writer", want, script, retries, sw.calls, sw.accepted, n, err)
	for _, s := range streams {
		if multi && s != stream {
			e.Fail("C07/retry-wrong-stream", "an attempt was written to stream %d, the caller asked for %d", s, stream)
		}
	}
	if len(sw.calls) > 1 {
		e.Probe("retry-resumed")
		e.NonTrivial()
	}
}

// ---- sweep: every outcome sequence up to length 3 x every retry budget 0..3 x both writer kinds

func c07SweepN(thorough bool) int { return seqCount(12, 3) * 4 * 2 }

func c07Sweep(e *Env) {
	k := e.Case
	multi := k%2 == 1
	k /= 2
	retries := k % 4
	k /= 4
	seq := decodeSeq(k, 12)
	const size = 100
	msgLen := 20 + 8 + size
	var script []outcome
	for _, s := range seq {
		acc := []int{0, 1, msgLen / 2, msgLen}[s%4]
		kind := []string{"temp", "perm", "plain"}[s/4]
		script = append(script, outcome{acc, kind})
		e.Fault("write-" + kind)
	}
	e.NonTrivial()
	c07RetryCase(e, size, retries, script, multi, 7)
}

func c07CheckRetry(e *Env, via string, want []byte, script []outcome, retries int, calls [][]byte, accepted []byte, n int64, err error) {
	attempts, total, kind := retryModel(want, script, retries)
	if len(calls) != len(attempts) {
		e.Fail("C07/retry-attempts/"+via, "%d write attempts, reference model makes %d (retries=%d script=%v)", len(calls), len(attempts), retries, script)
		return
	}
	for i := range calls {
		if !bytes.Equal(calls[i], attempts[i]) {
			e.Fail("C07/retry-wrong-bytes/"+via, "attempt %d wrote %d bytes, expected exactly the %d bytes not yet accepted (script=%v)", i, len(calls[i]), len(attempts[i]), script)
			return
		}
	}
	if !bytes.Equal(accepted, want[:len(accepted)]) {
		e.Fail("C07/retry-not-prefix/"+via, "the bytes accepted by the transport are not a prefix of the message")
		return
	}
	if int(n) != total {
		e.Fail("C07/retry-count/"+via, "returned n=%d, the transport accepted %d bytes (script=%v retries=%d)", n, total, script, retries)
		return
	}
	if (kind == "") != (err == nil) {
		e.Fail("C07/retry-result/"+via, "returned err=%v, reference outcome %q (script=%v retries=%d)", err, kind, script, retries)
		return
	}
	if kind == "" && !bytes.Equal(accepted, want) {
		e.Fail("C07/retry-incomplete/"+via, "success reported but only %d of %d bytes reached the transport", len(accepted), len(want))
	}
}

// c07RetryConn: retries through a real diam.Conn over a TCP-like transport.
func c07RetryConn(e *Env) {
	t := e.T
	e.TrustWait = true
	sc := newSimConn(e, "c0", drawAddr(t, 3868), drawAddr(t, 40000))
	conn, err := diam.NewConn(sc, "sim", diam.NewServeMux(), simDict())
	if err != nil {
		e.Harness("NewConn: %v", err)
	}
	defer func() {
		sc.EndRead(net.ErrClosed, false)
		e.Quiesce()
	}()
	size := c07Sizes(t)
	payload := marker(0, 0, size, 3)
	m := diam.NewMessage(901, diam.RequestFlag, 0, 77, 88, simDict())
	m.NewAVP(avpSimOctets, 0, 0, datatype.OctetString(payload))
	want := RefMsg{Cmd: 901, Flags: 0x80, HbH: 77, E2E: 88, AVPs: []RefAVP{{Code: avpSimOctets, Data: payload}}}.Bytes()
	retries := t.Range(0, 3)
	var script []outcome
	if t.Chance(3, 4) {
		k := []string{"temp", "temp", "perm", "plain"}[t.Draw(4)]
		acc := t.Range(0, len(want))
		script = []outcome{{acc, k}}
		sc.ArmWriteFault(&WriteFault{Kind: k, After: acc})
	}
	e.Act("retry-conn", "len=%d retries=%d script=%v", len(want), retries, script)
	n, werr := m.WriteToWithRetry(conn, uint(retries))
	e.Quiesce()
	var calls [][]byte
	log := sc.Written()
	for _, r := range sc.WriteRecs() {
		// reconstruct what each transport Write was given: accepted part is in the
		// log; the argument itself is the remaining message by construction of the
		// oracle below, so compare accepted prefixes only
		calls = append(calls, log[r.Start:r.Start+r.N])
	}
	_ = calls
	_, total, kind := retryModel(want, script, retries)
	if !bytes.Equal(log, want[:min(len(log), len(want))]) || len(log) > len(want) {
		e.Fail("C07/retry-via-conn/not-prefix", "the transport received %d bytes that are not a prefix of the %d-byte message (script=%v retries=%d)", len(log), len(want), script, retries)
		return
	}
	if kind == "" {
		if werr != nil || len(log) != len(want) {
			e.Fail("C07/retry-via-conn/remaining-not-sent", "the transport reported a temporary error after accepting part of the message (script %v), %d retries were asked for: %d of %d bytes reached the transport, err=%v", script, retries, len(log), len(want), werr)
			return
		}
		if int(n) != total {
			e.Fail("C07/retry-via-conn/count", "returned n=%d, the transport accepted %d bytes", n, total)
			return
		}
		if len(script) > 0 {
			e.Probe("retry-resumed")
		}
	} else if werr == nil {
		e.Fail("C07/retry-via-conn/error-swallowed", "the transport failed with a %s error and the write reported success", kind)
	}
	if len(script) > 0 {
		e.NonTrivial()
	}
}

// ---------------------------------------------------------------- concurrent writers on an SCTP association

// c07Sctp: writer tasks on a connection over a multistream association (the path
// that bypasses the buffered writer and, for WriteStream, the write lock).
func c07Sctp(e *Env) {
	t := e.T
	e.maxStep = 150
	be := newSimSCTP(e)
	msc := diam.NewVerifSCTPConn(be)
	defer diam.VerifSCTPRelease(msc)
	conn, err := diam.NewConn(msc.(net.Conn), "sim", diam.NewServeMux(), simDict())
	if err != nil {
		e.Harness("NewConn: %v", err)
	}
	be.SetTag(-1)
	nw := t.Range(1, 5)
	var mu sync.Mutex
	type sop struct {
		w, s     int
		stream   uint
		api      string
		want     []byte
		msg      *diam.Message
		inv, ret uint64
		err      error
		done     bool
	}
	type stask struct {
		ops  []*sop
		next int
		gate chan struct{}
		idle bool
		busy bool
	}
	tasks := make([]*stask, nw)
	for i := range tasks {
		tk := &stask{gate: make(chan struct{})}
		for s, n := 0, t.Range(1, 4); s < n; s++ {
			size := []int{0, 100, 1000, 1030, 3000}[t.Draw(5)]
			payload := marker(i, s, 24+size, byte(9*i+s))
			hbh, e2e := uint32(100*i+s+1), uint32(5000+100*i+s)
			op := &sop{w: i, s: s, stream: uint(t.Draw(16)), api: []string{"stream", "stream", "plain"}[t.Draw(3)]}
			op.want = RefMsg{Cmd: 900, Flags: 0x80, HbH: hbh, E2E: e2e, AVPs: []RefAVP{{Code: avpSimOctets, Data: payload}}}.Bytes()
			op.msg = diam.NewMessage(900, diam.RequestFlag, 0, hbh, e2e, simDict())
			op.msg.NewAVP(avpSimOctets, 0, 0, datatype.OctetString(payload))
			tk.ops = append(tk.ops, op)
		}
		tasks[i] = tk
		go func(tk *stask) {
			for _, op := range tk.ops {
				mu.Lock()
				tk.idle = true
				e.ParkBegin(false)
				mu.Unlock()
				<-tk.gate
				op.inv = e.Seq()
				if op.api == "stream" {
					_, op.err = op.msg.WriteToStream(conn, op.stream)
				} else if op.api == "plain-retry" {
					_, op.err = op.msg.WriteToWithRetry(conn, 2)
				} else {
					_, op.err = op.msg.WriteTo(conn) // no stream: the association's default
				}
				op.ret = e.Seq()
				mu.Lock()
				op.done = true
				tk.busy = false
				mu.Unlock()
			}
		}(tk)
	}
	e.Quiesce()
	start := func(tk *stask) {
		mu.Lock()
		op := tk.ops[tk.next]
		tk.next++
		tk.idle, tk.busy = false, true
		e.ParkEnd(false)
		mu.Unlock()
		e.Act("start", "w%d/m%d %s", op.w, op.s, op.api)
		tk.gate <- struct{}{}
	}
	stalled := false
	inbound := 0
	for e.Step() {
		var idle []*stask
		mu.Lock()
		busy := 0
		for _, tk := range tasks {
			if tk.idle && tk.next < len(tk.ops) {
				idle = append(idle, tk)
			}
			if tk.busy {
				busy++
			}
		}
		mu.Unlock()
		if len(idle) == 0 && !stalled {
			break
		}
		if !stalled && busy == 0 && len(idle) > 0 && inbound < 3 && t.Chance(1, 5) {
			// exclusive: a stream-less message written with retries; its first send blocks and then
			// fails temporarily while the reader moves into a message on another stream
			tk := idle[t.Draw(len(idle))]
			mu.Lock()
			op := tk.ops[tk.next]
			mu.Unlock()
			if op.api == "plain" {
				op.api = "plain-retry"
				be.ArmWriteFault(&WriteFault{Kind: "stall-temp", After: t.Range(0, 30)})
				be.SetTag(1000 + 10*op.w + op.s)
				start(tk)
				e.Quiesce()
				inbound++
				in := RefMsg{Cmd: 900, Flags: 0x80, HbH: 99, E2E: 99, AVPs: []RefAVP{{Code: avpSimOctets, Data: marker(9, inbound, 60, 1)}}}.Bytes()
				be.Feed(sctpChunk{uint16(2 + inbound), in[:len(in)-5]}) // header and most of the body, never the whole message
				e.Quiesce()
				be.Resume()
				e.Quiesce()
				be.SetTag(-1)
				e.Probe("sctp-retry-while-reader-elsewhere")
				continue
			}
		}
		switch {
		case stalled && (len(idle) == 0 || t.Chance(1, 3)):
			be.Resume()
			stalled = false
			e.Act("resume", "")
		case !stalled && t.Chance(1, 4):
			be.ArmWriteFault(&WriteFault{Kind: "stall"})
			start(idle[t.Draw(len(idle))])
			stalled = true
		default:
			start(idle[t.Draw(len(idle))])
		}
		e.Quiesce()
		if busy >= 1 {
			e.NonTrivial()
		}
	}
	for r := 0; r < 60; r++ {
		be.Resume()
		mu.Lock()
		var idle []*stask
		for _, tk := range tasks {
			if tk.idle && tk.next < len(tk.ops) {
				idle = append(idle, tk)
			}
		}
		mu.Unlock()
		for _, tk := range idle {
			start(tk)
		}
		e.Quiesce()
		if len(idle) == 0 {
			break
		}
	}
	defer func() { be.End(io.EOF); e.Quiesce() }()
	be.mu.Lock()
	ws := append([]sctpWrite{}, be.writes...)
	be.mu.Unlock()
	// attempts of an exclusive retried write carry a tag: reassemble, and require one stream
	var merged []sctpWrite
	byTag := map[int]int{}
	for _, wr := range ws {
		if wr.tag >= 1000 {
			if i, ok := byTag[wr.tag]; ok {
				if merged[i].stream != wr.stream {
					e.Fail("C07/retry-wrong-stream/sctp", "a retried stream-less message was started on stream %d and continued on stream %d", merged[i].stream, wr.stream)
					return
				}
				merged[i].data = append(merged[i].data, wr.data...)
				continue
			}
			byTag[wr.tag] = len(merged)
		}
		merged = append(merged, sctpWrite{stream: wr.stream, data: append([]byte{}, wr.data...), tag: wr.tag})
	}
	ws = merged
	pos := map[[2]int]int{}
	for i, wr := range ws {
		rm, err := refParse(wr.data)
		if err != nil || len(rm.AVPs) == 0 {
			e.Fail("C07/garbled-message/sctp", "SCTP write #%d is not a whole message: %v", i, err)
			return
		}
		w, s, ok := parseMarker(rm.AVPs[0].Data)
		if !ok || w >= len(tasks) || s >= len(tasks[w].ops) {
			e.Fail("C07/garbled-message/sctp", "SCTP write #%d carries no valid writer marker", i)
			return
		}
		op := tasks[w].ops[s]
		if !bytes.Equal(wr.data, op.want) {
			e.Fail("C07/interleaved-or-corrupt/sctp", "SCTP write #%d (writer %d seq %d) differs from what that writer wrote", i, w, s)
			return
		}
		if _, dup := pos[[2]int{w, s}]; dup {
			e.Fail("C07/duplicate-message/sctp", "writer %d message %d was written twice", w, s)
			return
		}
		pos[[2]int{w, s}] = i
		if op.api == "stream" && uint(wr.stream) != op.stream {
			e.Fail("C07/wrong-stream/sctp", "writer %d message %d was asked for stream %d and written to stream %d", w, s, op.stream, wr.stream)
			return
		}
	}
	for _, tk := range tasks {
		for _, a := range tk.ops {
			if !a.done {
				e.Fail("C07/write-never-returned/sctp", "writer %d message %d never returned", a.w, a.s)
				return
			}
			pa, ok := pos[[2]int{a.w, a.s}]
			if a.err == nil && !ok {
				e.Fail("C07/lost-message/sctp", "writer %d message %d: success reported, nothing written", a.w, a.s)
				return
			}
			for _, tk2 := range tasks {
				for _, b := range tk2.ops {
					pb, okb := pos[[2]int{b.w, b.s}]
					if !ok || !okb || a == b {
						continue
					}
					if a.w == b.w && a.s < b.s && pa > pb {
						e.Fail("C07/writer-order/sctp", "writer %d: message %d written after message %d", a.w, a.s, b.s)
						return
					}
					if a.ret != 0 && b.inv != 0 && a.ret < b.inv && pa > pb {
						e.Fail("C07/realtime-order/sctp", "w%d/m%d returned before w%d/m%d was invoked but was written after it", a.w, a.s, b.w, b.s)
						return
					}
				}
			}
		}
	}
	e.Probe("sctp-concurrent-writes")
}

// ---------------------------------------------------------------- retry after a write timeout on a served connection

// c07RetryTimeout: a server with WriteTimeout; the peer stops reading in the middle
// of a message for longer than the timeout, then reads on. With retries the rest is sent.
func c07RetryTimeout(e *Env) {
	t := e.T
	e.TrustWait = true
	T := []time.Duration{80 * time.Millisecond, time.Second}[t.Draw(2)]
	sc := newSimConn(e, "c0", drawAddr(t, 3868), drawAddr(t, 40000))
	lis := newSimListener(e)
	mux := diam.NewServeMux()
	got := make(chan diam.Conn, 1)
	mux.HandleFunc("ALL", func(c diam.Conn, m *diam.Message) {
		select {
		case got <- c:
		default:
		}
	})
	srv := &diam.Server{Handler: mux, Dict: simDict(), WriteTimeout: T}
	go srv.Serve(lis)
	lis.Connect(sc)
	sc.Deliver(RefMsg{Cmd: 900, Flags: 0x80, HbH: 1, E2E: 1, AVPs: []RefAVP{{Code: avpSimOctets, Data: []byte("hello")}}}.Bytes())
	e.Quiesce()
	var conn diam.Conn
	select {
	case conn = <-got:
	default:
		e.Harness("served connection did not reach the handler")
	}
	defer func() {
		sc.EndRead(io.EOF, false)
		lis.Close()
		e.Quiesce()
	}()
	size := c07Sizes(t)
	payload := marker(0, 0, size, 5)
	m := diam.NewMessage(901, diam.RequestFlag, 0, 77, 88, simDict())
	m.NewAVP(avpSimOctets, 0, 0, datatype.OctetString(payload))
	want := RefMsg{Cmd: 901, Flags: 0x80, HbH: 77, E2E: 88, AVPs: []RefAVP{{Code: avpSimOctets, Data: payload}}}.Bytes()
	retries := t.Range(0, 3)
	acc := t.Range(0, len(want)-1)
	sc.ArmWriteFault(&WriteFault{Kind: "stall", After: acc})
	e.Act("retry-timeout", "len=%d retries=%d stall-after=%d T=%v", len(want), retries, acc, T)
	var n int64
	var werr error
	done := make(chan struct{})
	go func() { n, werr = m.WriteToWithRetry(conn, uint(retries)); close(done) }()
	e.Quiesce()
	// the peer does not read for longer than the write timeout
	e.Advance(T + T/2)
	e.Quiesce()
	sc.Resume() // (no-op if the deadline already ended the stalled write)
	e.Quiesce()
	select {
	case <-done:
	default:
		e.Fail("C07/write-never-returned/timeout", "the write did not return after the write timeout")
		return
	}
	e.NonTrivial()
	log := sc.Written()
	if retries == 0 {
		if werr == nil {
			e.Fail("C07/retry-via-conn/error-swallowed", "the transport timed out after %d bytes, no retry was asked for, and the write reported success", acc)
		}
		return
	}
	if werr != nil || !bytes.Equal(log, want) || int(n) != len(want) {
		e.Fail("C07/retry-via-conn/remaining-not-sent/timeout", "write timeout after %d of %d bytes, %d retries asked for: %d bytes reached the transport, n=%d err=%v", acc, len(want), retries, len(log), n, werr)
		return
	}
	e.Probe("retry-after-write-timeout")
}

// c07ReadTimeoutStall: a Server with a ReadTimeout (and no WriteTimeout). A handler's answer
// stalls in the transport for longer than the read timeout: reads are not writes, the answer
// must still reach the peer whole once the peer reads again.
func c07ReadTimeoutStall(e *Env) {
	t := e.T
	e.TrustWait = true
	T := []time.Duration{80 * time.Millisecond, time.Second, 30 * time.Second}[t.Draw(3)]
	sc := newSimConn(e, "c0", drawAddr(t, 3868), drawAddr(t, 40000))
	lis := newSimListener(e)
	mux := diam.NewServeMux()
	size := c07Sizes(t)
	payload := marker(0, 0, size, 9)
	retries := t.Range(0, 2)
	type res struct {
		n   int64
		err error
	}
	done := make(chan res, 1)
	mux.HandleFunc("ALL", func(c diam.Conn, m *diam.Message) {
		a := m.Answer(2001)
		a.NewAVP(avpSimOctets, 0, 0, datatype.OctetString(payload))
		var r res
		if retries > 0 {
			r.n, r.err = a.WriteToWithRetry(c, uint(retries))
		} else {
			r.n, r.err = a.WriteTo(c)
		}
		done <- r
	})
	srv := &diam.Server{Handler: mux, Dict: simDict(), ReadTimeout: T}
	go srv.Serve(lis)
	lis.Connect(sc)
	defer func() {
		sc.Resume()
		sc.EndRead(io.EOF, false)
		lis.Close()
		e.Quiesce()
	}()
	e.Quiesce()
	// the connection is idle for a part of the read timeout, then the request arrives
	idle := []time.Duration{0, T / 4, T / 2, T - T/10}[t.Draw(4)]
	if idle > 0 {
		e.Advance(idle)
		e.Quiesce()
	}
	req := RefMsg{Cmd: 900, Flags: 0x80, HbH: 0x1234, E2E: 0x5678, AVPs: []RefAVP{{Code: avpSimOctets, Data: []byte("ping")}}}
	acc := t.Range(0, 200)
	sc.ArmWriteFault(&WriteFault{Kind: "stall", After: acc})
	sc.Deliver(req.Bytes())
	e.Quiesce()
	if !sc.Stalled() {
		e.Harness("the answer write did not reach the transport")
	}
	stall := []time.Duration{T / 2, T + T/2, 3 * T}[t.Draw(3)]
	e.Act("slow-peer", "T=%v idle=%v stall=%v answer=%dB accepted-before-stall=%d retries=%d", T, idle, stall, size, acc, retries)
	e.Advance(stall)
	e.Quiesce()
	e.NonTrivial()
	if idle+stall > T {
		e.Probe("answer-stalled-past-read-timeout")
	}
	sc.Resume()
	e.Quiesce()
	var r res
	select {
	case r = <-done:
	default:
		e.Fail("C07/write-never-returned/read-timeout", "the peer read again and the handler's answer write did not return")
		return
	}
	rm, err := refParse(sc.Written())
	if r.err != nil || err != nil || rm.HbH != req.HbH || rm.find(avpSimOctets) == nil || !bytes.Equal(rm.find(avpSimOctets).Data, payload) {
		e.Fail("C07/torn-message/read-timeout", "Server.ReadTimeout=%v, no WriteTimeout: the answer stalled in the transport for %v (connection idle %v before the request) and did not reach the peer whole: %d bytes on the wire, n=%d err=%v", T, stall, idle, len(sc.Written()), r.n, r.err)
		return
	}
	if sc.Closed() {
		e.Fail("C07/closed-after-slow-write", "the answer went out whole after the stall, yet the library closed the connection")
	}
}

// c07WriteWindow: Server.WriteTimeout = T bounds each write on its own. A first message goes
// out at once; a second one is written when most of T has passed since and stalls for less
// than T: it must reach the peer whole.
func c07WriteWindow(e *Env) {
	t := e.T
	e.TrustWait = true
	T := []time.Duration{90 * time.Millisecond, time.Second, 30 * time.Second}[t.Draw(3)]
	sc := newSimConn(e, "c0", drawAddr(t, 3868), drawAddr(t, 40000))
	lis := newSimListener(e)
	mux := diam.NewServeMux()
	got := make(chan diam.Conn, 1)
	mux.HandleFunc("ALL", func(c diam.Conn, m *diam.Message) {
		select {
		case got <- c:
		default:
		}
	})
	srv := &diam.Server{Handler: mux, Dict: simDict(), WriteTimeout: T}
	go srv.Serve(lis)
	lis.Connect(sc)
	sc.Deliver(RefMsg{Cmd: 900, Flags: 0x80, HbH: 1, E2E: 1, AVPs: []RefAVP{{Code: avpSimOctets, Data: []byte("hello")}}}.Bytes())
	e.Quiesce()
	var conn diam.Conn
	select {
	case conn = <-got:
	default:
		e.Harness("served connection did not reach the handler")
	}
	defer func() {
		sc.Resume()
		sc.EndRead(io.EOF, false)
		lis.Close()
		e.Quiesce()
	}()
	mk := func(k int, size int) (*diam.Message, []byte) {
		payload := marker(0, k, size, byte(3+k))
		m := diam.NewMessage(901, diam.RequestFlag, 0, uint32(70+k), uint32(80+k), simDict())
		m.NewAVP(avpSimOctets, 0, 0, datatype.OctetString(payload))
		return m, RefMsg{Cmd: 901, Flags: 0x80, HbH: uint32(70 + k), E2E: uint32(80 + k), AVPs: []RefAVP{{Code: avpSimOctets, Data: payload}}}.Bytes()
	}
	m1, want1 := mk(1, t.Range(0, 300))
	if n, err := m1.WriteTo(conn); err != nil || int(n) != len(want1) {
		e.Fail("C07/write-failed", "a write on an idle healthy connection failed: n=%d err=%v", n, err)
		return
	}
	gap := []time.Duration{T / 3, 2 * T / 3, T - T/20, T + T/10}[t.Draw(4)]
	e.Quiesce()
	e.Advance(gap)
	e.Quiesce()
	m2, want2 := mk(2, c07Sizes(t))
	stall := []time.Duration{T / 4, T / 2, T - T/10}[t.Draw(3)]
	sc.ArmWriteFault(&WriteFault{Kind: "stall", After: t.Range(0, len(want2)-1)})
	type res struct {
		n   int64
		err error
	}
	done := make(chan res, 1)
	go func() { n, err := m2.WriteTo(conn); done <- res{n, err} }()
	e.Quiesce()
	e.Act("window", "T=%v gap=%v stall=%v len=%d", T, gap, stall, len(want2))
	e.NonTrivial()
	e.Advance(stall)
	e.Quiesce()
	if gap+stall > T && gap < T {
		e.Probe("second-write-late-in-window")
	}
	sc.Resume()
	e.Quiesce()
	var r res
	select {
	case r = <-done:
	default:
		e.Fail("C07/write-never-returned/window", "the peer read again and the write did not return")
		return
	}
	if r.err != nil || !bytes.Equal(sc.Written(), append(append([]byte{}, want1...), want2...)) {
		e.Fail("C07/torn-message/write-window", "Server.WriteTimeout=%v: a message written %v after the previous one stalled in the transport for %v (less than the timeout) and did not reach the peer whole: n=%d of %d, err=%v", T, gap, stall, r.n, len(want2), r.err)
	}
}

// c07Reuse: one writer keeps a Message (and the grouped AVP inside it) and writes it again and
// again, editing values in place between the writes, as a client does that updates a counter
// in a request template. Every write must put the message's current content on the wire.
func c07Reuse(e *Env) {
	t := e.T
	e.TrustWait = true
	sc := newSimConn(e, "c0", drawAddr(t, 3868), drawAddr(t, 40000))
	mux := diam.NewServeMux()
	conn, err := diam.NewConn(sc, "sim", mux, simDict())
	if err != nil {
		e.Harness("NewConn: %v", err)
	}
	defer func() { sc.EndRead(io.EOF, false); e.Quiesce() }()
	oct := func(n int, salt byte) []byte { return marker(0, int(salt), n, salt) }
	curOct := oct(t.Range(1, 60), 1)
	curU32 := uint32(t.Draw(1 << 30))
	curInner := oct(t.Range(1, 40), 2)
	m := diam.NewMessage(900, diam.RequestFlag, 0, 0x51, 0x52, simDict())
	m.NewAVP(avpSimOctets, 0, 0, datatype.OctetString(curOct))
	grp := &diam.GroupedAVP{AVP: []*diam.AVP{
		diam.NewAVP(avpSimU32, 0, 0, datatype.Unsigned32(curU32)),
		diam.NewAVP(avpSimOctets, 0, 0, datatype.OctetString(curInner)),
	}}
	m.NewAVP(avpSimGroup, 0, 0, grp)
	ref := func() []byte {
		return RefMsg{Cmd: 900, Flags: 0x80, HbH: 0x51, E2E: 0x52, AVPs: []RefAVP{
			{Code: avpSimOctets, Data: curOct},
			{Code: avpSimGroup, Group: []RefAVP{{Code: avpSimU32, Data: u32(curU32)}, {Code: avpSimOctets, Data: curInner}}},
		}}.Bytes()
	}
	var want []byte
	n := t.Range(2, 6)
	for k := 0; k < n && !e.Failed(); k++ {
		if k > 0 {
			switch t.Draw(4) {
			case 0: // a counter inside the group changes, sizes stay
				curU32 = uint32(t.Draw(1 << 30))
				grp.AVP[0].Data = datatype.Unsigned32(curU32)
			case 1: // a string inside the group changes, same length
				curInner = oct(len(curInner), byte(10+k))
				grp.AVP[1].Data = datatype.OctetString(curInner)
			case 2: // a top-level value is replaced by a shorter or longer one
				curOct = oct(t.Range(1, 90), byte(20+k))
				m.AVP[0] = diam.NewAVP(avpSimOctets, 0, 0, datatype.OctetString(curOct))
			default: // the group member changes size
				curInner = oct(t.Range(1, 60), byte(30+k))
				grp.AVP[1] = diam.NewAVP(avpSimOctets, 0, 0, datatype.OctetString(curInner))
				m.AVP[1] = diam.NewAVP(avpSimGroup, 0, 0, grp)
			}
			m.Header.MessageLength = uint32(m.Len())
			e.Probe("message-rewritten-after-edit")
		}
		cur := ref()
		want = append(want, cur...)
		var nw int64
		var werr error
		func() {
			defer func() {
				if r := recover(); r != nil {
					e.Fail("C07/library-panic/write", "writing a message object that had been written before and edited since panicked inside the library: %v", r)
				}
			}()
			nw, werr = m.WriteTo(conn)
		}()
		if e.Failed() {
			return
		}
		e.Quiesce()
		e.NonTrivial()
		if werr != nil || int(nw) != len(cur) {
			e.Fail("C07/write-failed/reuse", "write #%d of a re-used message: n=%d (message is %d bytes) err=%v", k, nw, len(cur), werr)
			return
		}
		if !bytes.Equal(sc.Written(), want) {
			e.Fail("C07/garbled-message/reuse", "write #%d of a message object that had been written before and edited since: the bytes on the wire are not the message's current content", k)
			return
		}
	}
}

// c07RetryAmongWriters: the two halves of the property together. Writer A asked for retries and
// its first attempt is cut short by a temporary error; before A's next attempt another goroutine
// writes a message of its own on the same connection. Both messages must reach the transport
// whole: A's remaining bytes belong right behind A's first bytes.
func c07RetryAmongWriters(e *Env) {
	t := e.T
	e.TrustWait = false
	sc := newSimConn(e, "c0", drawAddr(t, 3868), drawAddr(t, 40000))
	mux := diam.NewServeMux()
	conn, err := diam.NewConn(sc, "sim", mux, simDict())
	if err != nil {
		e.Harness("NewConn: %v", err)
	}
	defer func() { sc.EndRead(io.EOF, false); e.Quiesce() }()
	mk := func(k, size int) (*diam.Message, []byte) {
		payload := marker(k, 0, size, byte(40+k))
		m := diam.NewMessage(900, diam.RequestFlag, 0, uint32(600+k), uint32(700+k), simDict())
		m.NewAVP(avpSimOctets, 0, 0, datatype.OctetString(payload))
		return m, RefMsg{Cmd: 900, Flags: 0x80, HbH: uint32(600 + k), E2E: uint32(700 + k), AVPs: []RefAVP{{Code: avpSimOctets, Data: payload}}}.Bytes()
	}
	ma, wantA := mk(1, c07Sizes(t))
	mb, wantB := mk(2, t.Range(0, 300))
	// A's goroutine is held at the point between two attempts of its retried write
	var mu sync.Mutex
	var held chan struct{}
	var isA atomic.Bool
	diam.VerifYield = func(site string) {
		if site != "write.retry" || !isA.Load() {
			return
		}
		mu.Lock()
		ch := make(chan struct{})
		held = ch
		e.ParkBegin(true)
		mu.Unlock()
		<-ch
	}
	cut := t.Range(1, len(wantA)-1)
	sc.ArmWriteFault(&WriteFault{Kind: "temp", After: cut})
	type res struct {
		n   int64
		err error
	}
	doneA := make(chan res, 1)
	go func() {
		isA.Store(true)
		n, err := ma.WriteToWithRetry(conn, uint(t.Range(1, 3)))
		isA.Store(false)
		doneA <- res{n, err}
	}()
	e.Quiesce()
	mu.Lock()
	parked := held != nil
	mu.Unlock()
	if !parked {
		// (a tree whose retry loop no longer passes the tagged yield point: this schedule cannot be
		// produced there; the writer has run to completion on its own)
		e.Probe("retry-yield-site-not-reached")
		return
	}
	e.Act("retry-held", "A accepted %d of %d, then a temporary error", cut, len(wantA))
	// meanwhile B writes
	isA.Store(false)
	if n, err := mb.WriteTo(conn); err != nil || int(n) != len(wantB) {
		e.Fail("C07/write-failed", "the other writer's write failed: n=%d err=%v", n, err)
	}
	isA.Store(true)
	e.Probe("writer-ran-between-retry-attempts")
	e.NonTrivial()
	mu.Lock()
	ch := held
	held = nil
	mu.Unlock()
	e.ParkEnd(true)
	close(ch)
	e.Quiesce()
	select {
	case r := <-doneA:
		if r.err != nil || int(r.n) != len(wantA) {
			e.Fail("C07/retry-via-conn/remaining-not-sent", "the retried write reported n=%d err=%v for a %d-byte message", r.n, r.err, len(wantA))
			return
		}
	default:
		e.Fail("C07/write-never-returned/retry", "the retried write did not return")
		return
	}
	if e.Failed() {
		return
	}
	got := sc.Written()
	ab := append(append([]byte{}, wantA...), wantB...)
	ba := append(append([]byte{}, wantB...), wantA...)
	if !bytes.Equal(got, ab) && !bytes.Equal(got, ba) {
		e.Fail("C07/interleaved-or-corrupt/retry-vs-other-writer", "writer A's retried message (first attempt accepted %d of %d bytes, then a temporary error) and writer B's message are both reported written, but the transport does not hold the two messages whole: B's bytes sit between A's first bytes and A's remaining bytes", cut, len(wantA))
	}
}
