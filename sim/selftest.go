package dsim

import (
	"encoding/json"
	"fmt"
	"os"
	"path/filepath"
	"sort"
	"sync"
)

// selftestMain is the determinism self-test: for every registered property the
// same seeds are executed several times, in different processes, at different
// GOMAXPROCS, in the middle of a batch and alone; the per-run hashes (choice
// tape + action/observation trace + fired faults + verdict) must be identical.
func selftestMain() int {
	os.MkdirAll(filepath.Join(verifRoot, ".build"), 0755)
	scratch, err := os.MkdirTemp(filepath.Join(verifRoot, ".build"), "selftest-")
	if err != nil {
		fmt.Fprintln(os.Stderr, err)
		return 2
	}
	defer os.RemoveAll(scratch)
	nSeeds := envInt("VERIF_SELFTEST_SEEDS", 64)
	var props []string
	for id := range registry {
		props = append(props, id)
	}
	sort.Strings(props)
	if only := os.Getenv("VERIF_PROP"); only != "" {
		props = []string{only}
	}
	type job struct {
		prop, label string
		gmp         int
		start, n    int
		hashes      []uint64
		err         string
	}
	var jobs []*job
	for _, p := range props {
		for _, g := range []int{1, 1, 4, 16} {
			jobs = append(jobs, &job{prop: p, label: fmt.Sprintf("batch/GOMAXPROCS=%d", g), gmp: g, n: nSeeds})
		}
		for _, k := range []int{3, nSeeds / 2, nSeeds - 1} {
			jobs = append(jobs, &job{prop: p, label: fmt.Sprintf("alone@%d", k), gmp: 1, start: k, n: 1})
		}
	}
	sem := make(chan struct{}, 16)
	var wg sync.WaitGroup
	for i, j := range jobs {
		wg.Add(1)
		sem <- struct{}{}
		go func(i int, j *job) {
			defer wg.Done()
			defer func() { <-sem }()
			outf := filepath.Join(scratch, fmt.Sprintf("j%d.json", i))
			env := []string{"VERIF_ROLE=worker", fmt.Sprintf("GOMAXPROCS=%d", j.gmp), "GODEBUG=asyncpreemptoff=1", "VERIF_PROP=" + j.prop,
				"VERIF_TIER=quick", "VERIF_SEED=777", "VERIF_WIDX=0", "VERIF_WN=1", fmt.Sprintf("VERIF_START=%d", j.start), fmt.Sprintf("VERIF_MAXRUNS=%d", j.n),
				"VERIF_BUDGET_MS=600000", "VERIF_NOSWEEP=1", "VERIF_NOSHRINK=1", "VERIF_RUNHASHES=1", "VERIF_OUT=" + outf}
			code, se := runChild(env, 4096)
			if code != 0 {
				j.err = fmt.Sprintf("exit %d: %s", code, short(se, 300))
				return
			}
			b, err := os.ReadFile(outf)
			if err != nil {
				j.err = err.Error()
				return
			}
			var wo WorkerOut
			if json.Unmarshal(b, &wo) != nil {
				j.err = "bad worker output"
				return
			}
			if len(wo.Harness) > 0 {
				j.err = "harness error: " + wo.Harness[0]
			}
			j.hashes = wo.RunHashes
		}(i, j)
	}
	wg.Wait()
	bad := 0
	for _, p := range props {
		var ref []uint64
		line := fmt.Sprintf("selftest %s:", p)
		for _, j := range jobs {
			if j.prop != p {
				continue
			}
			if j.err != "" {
				fmt.Printf("selftest %s %s: ERROR %s\n", p, j.label, j.err)
				bad++
				continue
			}
			if ref == nil {
				ref = j.hashes
				line += fmt.Sprintf(" %d seeds;", len(ref))
				continue
			}
			diff := 0
			for k, h := range j.hashes {
				if j.start+k >= len(ref) || ref[j.start+k] != h {
					diff++
				}
			}
			if len(j.hashes) != j.n {
				diff++
			}
			if diff > 0 {
				line += fmt.Sprintf(" %s DIFFERS(%d);", j.label, diff)
				bad++
			} else {
				line += fmt.Sprintf(" %s ok;", j.label)
			}
		}
		fmt.Println(line)
	}
	if bad > 0 {
		fmt.Printf("HARNESS-ERROR: determinism self-test failed (%d divergences)\n", bad)
		return 2
	}
	fmt.Println("selftest: all per-run hashes identical across executions, processes, GOMAXPROCS 1/4/16 and batch position")
	return 0
}
