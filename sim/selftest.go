package dsim

func selftestMain() int { return 2 }
