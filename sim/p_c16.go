package dsim

// C16 — answers mirror the request they answer. Scenarios: Message.Answer on
// live TCP-like connections (server world), on SCTP associations (SCTP world),
// and the state machine's CEA / DWA (sm world); registered as they are built.

var c16 = &Property{
	ID: "C16", Level: "exploration",
	Rule: "each run draws request headers with both identifiers from {0, 1, 2^31, 2^32-1, random}, every flag byte with R set, commands/applications of the dictionary, result codes {none, 2001, 3xxx, 5xxx, 2^32-1} and (SCTP) inbound streams 0-15, delivered in drawn fragments to handlers that answer through Message.Answer + WriteTo, or to the state machine (CER, DWR); " +
		"non-trivial = at least one request with a boundary identifier or non-default flag byte was answered; distinct = hash of (scenario, action kinds, header classes)",
	Real:    append([]string{"Message.Answer, NewMessage, WriteTo/WriteToStream, response.WriteStream", "sm.successCEA / errorCEA / handleDWR (sm scenarios)", "diam.SCTPConn demultiplexer and WriteStream (SCTP scenarios)"}, srvReal...),
	Stubbed: srvStub,
	Assume:  []string{"quantified over inputs only; the schedule dimension (fragmentation, parked handlers, stream interleaving) is exercised but is not what decides the property"},
	MustProbes: []string{"writer-stream-pinned", "retry-while-reader-moved-on", "deferred-answer"},
	Scenarios: []*Scenario{
		{Name: "tcp-answer", Weight: 4, Bubble: true, Run: c16Tcp},
		{Name: "sweep-headers", Bubble: true, Run: c16Sweep, SweepN: c16SweepN, QuickSweep: true, Exhaustive: true,
			SweepNote: "both identifiers over {0, 1, 2^31, 2^32-1} x every flag byte with R set (128) x result codes {none, 2001, 3004, 5012, 2^32-1}: 10 240 requests answered through Message.Answer on a live connection"},
		{Name: "sm-cea-dwa", Weight: 3, Bubble: true, Run: func(e *Env) { smaRun(e, "C16") }},
	},
}

func init() { register(c16) }
