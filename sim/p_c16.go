package dsim

import (
	"fmt"
	"io"
	"strings"
	"sync"

	"github.com/fiorix/go-diameter/v4/diam"
	"github.com/fiorix/go-diameter/v4/diam/datatype"
)

// C16 — answers mirror the request they answer. Scenarios: Message.Answer on
// live TCP-like connections (server world), on SCTP associations (SCTP world),
// and the state machine's CEA / DWA (sm world); registered as they are built.

var c16 = &Property{
	ID: "C16", Level: "exploration",
	Rule: "each run draws request headers with both identifiers from {0, 1, 2^31, 2^32-1, random}, every flag byte with R set, commands/applications of the dictionary, result codes {none, 2001, 3xxx, 5xxx, 2^32-1} and (SCTP) inbound streams 0-15, delivered in drawn fragments to handlers that answer through Message.Answer + WriteTo, or to the state machine (CER, DWR); " +
		"non-trivial = at least one request with a boundary identifier or non-default flag byte was answered; distinct = hash of (scenario, action kinds, header classes)",
	Real:       append([]string{"Message.Answer, NewMessage, WriteTo/WriteToStream, response.WriteStream", "sm.successCEA / errorCEA / handleDWR (sm scenarios)", "diam.SCTPConn demultiplexer and WriteStream (SCTP scenarios)"}, srvReal...),
	Stubbed:    srvStub,
	Assume:     []string{"quantified over inputs only; the schedule dimension (fragmentation, parked handlers, stream interleaving) is exercised but is not what decides the property"},
	MustProbes: []string{"writer-stream-pinned", "retry-while-reader-moved-on", "deferred-answer", "late-answer-to-ended-connection"},
	Scenarios: []*Scenario{
		{Name: "tcp-answer", Weight: 4, Bubble: true, Run: c16Tcp},
		{Name: "answer-through-the-conn-of-an-ended-connection", Weight: 1, Bubble: true, Run: c16StaleConn},
		{Name: "sweep-headers", Bubble: true, Run: c16Sweep, SweepN: c16SweepN, QuickSweep: true, Exhaustive: true,
			SweepNote: "both identifiers over {0, 1, 2^31, 2^32-1} x every flag byte with R set (128) x result codes {none, 2001, 3004, 5012, 2^32-1}: 10 240 requests answered through Message.Answer on a live connection"},
		{Name: "sm-cea-dwa", Weight: 3, Bubble: true, Run: func(e *Env) { smaRun(e, "C16") }},
	},
}

func init() { register(c16) }

// c16StaleConn: a worker goroutine still holds the Conn (and the request) of a connection that
// has ended meanwhile, and answers now. Whatever the library recycles, that answer does not reach
// any other peer: the connections accepted afterwards receive the answers to their own requests
// and nothing else, and closing the stale Conn closes nobody else's transport.
func c16StaleConn(e *Env) {
	t := e.T
	e.TrustWait = true
	lis := newSimListener(e)
	mux := diam.NewServeMux()
	type kept struct {
		c diam.Conn
		m *diam.Message
	}
	var mu sync.Mutex
	var held []kept
	mux.HandleFunc("ALL", func(c diam.Conn, m *diam.Message) {
		tag := string(m.AVP[0].Data.Serialize())
		if strings.HasPrefix(tag, "A") {
			// handed to a worker; answered later
			mu.Lock()
			held = append(held, kept{c, m})
			mu.Unlock()
			return
		}
		a := m.Answer(2001)
		a.NewAVP(avpSimOctets, 0, 0, datatype.OctetString(tag))
		a.WriteTo(c)
	})
	srv := &diam.Server{Handler: mux, Dict: simDict()}
	go srv.Serve(lis)
	req := func(tag string, hbh uint32) RefMsg {
		return RefMsg{Cmd: 900, Flags: 0x80 | byte(t.Draw(2))<<6, HbH: hbh, E2E: hbh ^ 0x5555, AVPs: []RefAVP{{Code: avpSimOctets, Data: []byte(tag)}}}
	}
	a := newSimConn(e, "A", drawAddr(t, 3868), drawAddr(t, 45001))
	lis.Connect(a)
	na := t.Range(1, 3)
	for i := 0; i < na; i++ {
		a.Deliver(req(fmt.Sprintf("A%d", i), uint32(0xa0+i)).Bytes())
	}
	e.Quiesce()
	// A ends
	switch t.Draw(3) {
	case 0:
		a.EndRead(io.EOF, false)
	case 1:
		a.EndRead(errSimReset, true)
	default:
		mu.Lock()
		c := held[0].c
		mu.Unlock()
		c.Close()
	}
	e.Quiesce()
	if !a.Closed() {
		e.Harness("connection A did not end")
	}
	// newcomers
	var others []*SimConn
	nb := t.Range(1, 3)
	for i := 0; i < nb; i++ {
		sc := newSimConn(e, fmt.Sprintf("B%d", i), drawAddr(t, 3868), drawAddr(t, 45010+i))
		lis.Connect(sc)
		others = append(others, sc)
	}
	defer func() {
		for _, sc := range others {
			sc.EndRead(io.EOF, false)
		}
		lis.Close()
		e.Quiesce()
	}()
	e.Quiesce()
	reqs := map[string]RefMsg{}
	for i, sc := range others {
		r := req(fmt.Sprintf("B%d", i), uint32(0xb0+i))
		reqs[sc.Name] = r
		sc.Deliver(r.Bytes())
	}
	e.Quiesce()
	// now the worker answers A's requests through the Conn it still holds
	mu.Lock()
	hs := append([]kept{}, held...)
	mu.Unlock()
	if len(hs) == 0 {
		e.Harness("no request of A was handed to the worker")
	}
	for _, h := range hs {
		ans := h.m.Answer(2001)
		ans.NewAVP(avpSimOctets, 0, 0, datatype.OctetString(h.m.AVP[0].Data.Serialize()))
		ans.WriteTo(h.c)
		if t.Chance(1, 3) {
			h.c.Close()
		}
	}
	e.Quiesce()
	e.Probe("late-answer-to-ended-connection")
	e.NonTrivial()
	for _, sc := range others {
		if sc.Closed() {
			e.Fail("C16/other-connection-closed-by-stale-conn", "closing the Conn of the ended connection A closed the transport of %s", sc.Name)
			return
		}
		r := reqs[sc.Name]
		rest := sc.Written()
		n := 0
		for len(rest) > 0 {
			msg, r2, st := refFrame(rest)
			if st != "ok" {
				e.Fail("C16/unparsable-output", "%s received bytes that do not frame", sc.Name)
				return
			}
			rm, err := refParse(msg)
			if err != nil {
				e.Fail("C16/unparsable-output", "%s: %v", sc.Name, err)
				return
			}
			n++
			if rm.HbH != r.HbH || rm.E2E != r.E2E {
				e.Fail("C16/answer-mismatch/foreign-answer", "%s sent one request (hop-by-hop %#x) and received an answer with hop-by-hop %#x: the answer to a request of the ended connection A", sc.Name, r.HbH, rm.HbH)
				return
			}
			if !mirrorHeader("C16", "answer", e, r, &rm) {
				return
			}
			rest = r2
		}
		if n != 1 {
			e.Fail("C16/answer-count", "%s sent one request and received %d answers", sc.Name, n)
			return
		}
	}
}
