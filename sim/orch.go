package dsim

import (
	"encoding/json"
	"fmt"
	"os"
	"os/exec"
	"path/filepath"
	"regexp"
	"runtime"
	"sort"
	"strings"
	"sync"
	"time"
)

// verifRoot is the directory the check driver runs in (normally /verif).
var verifRoot = func() string {
	if r := os.Getenv("VERIF_ROOT"); r != "" {
		return r
	}
	return "/verif"
}()

// KnownFinding is an entry of /verif/known_findings.json (never written at run time).
type KnownFinding struct {
	Property  string `json:"property"`
	Status    string `json:"status"`    // "open" or "fixed"
	Signature string `json:"signature"` // regular expression over violation signatures
	What      string `json:"what"`
	Commit    string `json:"commit,omitempty"`
}

func loadKnown() []KnownFinding {
	b, err := os.ReadFile(filepath.Join(verifRoot, "known_findings.json"))
	if err != nil {
		return nil
	}
	var f struct {
		Findings []KnownFinding `json:"findings"`
	}
	if json.Unmarshal(b, &f) != nil {
		return nil
	}
	return f.Findings
}

type childResult struct {
	out    *WorkerOut
	exit   int
	stderr string
	prog   string
}

func selfExe() string {
	exe, err := os.Executable()
	if err != nil {
		return os.Args[0]
	}
	return exe
}

func runChild(env []string, stderrCap int) (int, string) {
	cmd := exec.Command(selfExe(), "-test.run", "^TestWorker$", "-test.timeout", "0")
	cmd.Env = append(os.Environ(), env...)
	var eb limitedBuf
	eb.max = stderrCap
	cmd.Stderr = &eb
	cmd.Stdout = &eb
	err := cmd.Run()
	code := 0
	if err != nil {
		if ee, ok := err.(*exec.ExitError); ok {
			code = ee.ExitCode()
			if code < 0 {
				code = 137
			}
		} else {
			code = 2
		}
	}
	return code, eb.String()
}

type limitedBuf struct {
	mu  sync.Mutex
	b   []byte
	max int
}

func (l *limitedBuf) Write(p []byte) (int, error) {
	l.mu.Lock()
	if len(l.b) < l.max {
		room := l.max - len(l.b)
		if room > len(p) {
			room = len(p)
		}
		l.b = append(l.b, p[:room]...)
	}
	l.mu.Unlock()
	return len(p), nil
}
func (l *limitedBuf) String() string { return string(l.b) }

func orchMain() int {
	prop := os.Getenv("VERIF_PROP")
	p := registry[prop]
	if p == nil {
		fmt.Fprintf(os.Stderr, "unknown property %q\n", prop)
		return 2
	}
	tier := os.Getenv("VERIF_TIER")
	if tier != "thorough" {
		tier = "quick"
	}
	if rp := os.Getenv("VERIF_REPLAY_FILE"); rp != "" {
		return orchReplay(p, rp)
	}
	seed := envU64("VERIF_SEED", 20261001)
	nw := envInt("VERIF_WORKERS", runtime.NumCPU())
	if nw > 16 {
		nw = 16
	}
	if nw < 1 {
		nw = 1
	}
	budgetS := envInt("VERIF_BUDGET_S", 0)
	if budgetS == 0 {
		if tier == "thorough" {
			budgetS = 420
		} else {
			budgetS = 22
		}
	}
	start := time.Now()
	scratch, err := os.MkdirTemp(filepath.Join(verifRoot, ".build"), "run-"+prop+"-")
	if err != nil {
		fmt.Fprintln(os.Stderr, err)
		return 2
	}
	defer os.RemoveAll(scratch)

	fmt.Printf("dsim: property=%s tier=%s seed=%d workers=%d seeded-budget=%ds\n", prop, tier, seed, nw, budgetS)
	results := make([]childResult, nw)
	var wg sync.WaitGroup
	for i := 0; i < nw; i++ {
		wg.Add(1)
		go func(i int) {
			defer wg.Done()
			outf := filepath.Join(scratch, fmt.Sprintf("w%d.json", i))
			progf := filepath.Join(scratch, fmt.Sprintf("w%d.prog", i))
			env := []string{"VERIF_ROLE=worker", "GOMAXPROCS=1", "GODEBUG=asyncpreemptoff=1",
				"VERIF_PROP=" + prop, "VERIF_TIER=" + tier, fmt.Sprintf("VERIF_SEED=%d", seed),
				fmt.Sprintf("VERIF_WIDX=%d", i), fmt.Sprintf("VERIF_WN=%d", nw),
				fmt.Sprintf("VERIF_BUDGET_MS=%d", budgetS*1000), "VERIF_OUT=" + outf, "VERIF_PROGRESS=" + progf}
			code, se := runChild(env, 1<<16)
			r := childResult{exit: code, stderr: se}
			if b, err := os.ReadFile(progf); err == nil {
				r.prog = strings.TrimSpace(string(b))
			}
			if code == 0 {
				if b, err := os.ReadFile(outf); err == nil {
					var wo WorkerOut
					if json.Unmarshal(b, &wo) == nil {
						r.out = &wo
					}
				}
			}
			results[i] = r
		}(i)
	}
	wg.Wait()

	// ---- merge
	tot := &WorkerOut{Prop: prop, Scen: map[string]*ScenStat{}, Faults: map[string]int{}, Probes: map[string]int{}}
	hashes := map[uint64]bool{}
	var viols []ViolationRec
	var harness []string
	for i, r := range results {
		if r.out == nil {
			// crashed, hung or failed worker: violations it had already recorded still count
			partial := 0
			if b, err := os.ReadFile(filepath.Join(scratch, fmt.Sprintf("w%d.json.viol", i))); err == nil {
				for _, line := range strings.Split(string(b), "\n") {
					var rec ViolationRec
					if line != "" && json.Unmarshal([]byte(line), &rec) == nil {
						viols = append(viols, rec)
						partial++
					}
				}
			}
			if partial > 0 {
				fmt.Printf("dsim: worker %d died (exit %d) after reporting %d violation(s); its later runs are lost\n", i, r.exit, partial)
				continue
			}
			v, herr := triageDeadWorker(p, tier, r, scratch, i, &HistSpec{Base: seed, WIdx: i, WN: nw})
			if v != nil {
				viols = append(viols, *v)
			}
			if herr != "" {
				harness = append(harness, herr)
			}
			continue
		}
		wo := r.out
		tot.Runs += wo.Runs
		tot.SeededRuns += wo.SeededRuns
		tot.SimNs += wo.SimNs
		tot.Leftover += wo.Leftover
		for _, k := range sortedScen(wo.Scen) {
			st := tot.Scen[k]
			if st == nil {
				st = &ScenStat{}
				tot.Scen[k] = st
			}
			st.Runs += wo.Scen[k].Runs
			st.SweepN = wo.Scen[k].SweepN
			st.SweepDone += wo.Scen[k].SweepDone
			st.Exhaust = wo.Scen[k].Exhaust
		}
		for _, h := range wo.Hashes {
			hashes[h] = true
		}
		for _, k := range sortedKeys(wo.Faults) {
			tot.Faults[k] += wo.Faults[k]
		}
		for _, k := range sortedKeys(wo.Probes) {
			tot.Probes[k] += wo.Probes[k]
		}
		tot.Samples = append(tot.Samples, wo.Samples...)
		for k := range wo.Viol {
			wo.Viol[k].Worker = i
		}
		viols = append(viols, wo.Viol...)
		harness = append(harness, wo.Harness...)
	}
	sort.SliceStable(viols, func(i, j int) bool {
		if viols[i].Sig != viols[j].Sig {
			return viols[i].Sig < viols[j].Sig
		}
		if viols[i].MinLen != viols[j].MinLen {
			return viols[i].MinLen < viols[j].MinLen
		}
		return viols[i].RunIndex < viols[j].RunIndex
	})

	// ---- one replay file per signature, verified in a fresh process
	known := loadKnown()
	type reported struct {
		sig, path, what string
		known           bool
	}
	var reports []reported
	seen := map[string]bool{}
	replayDir := filepath.Join(verifRoot, "replays")
	if os.Getenv("VERIF_NO_EVIDENCE") != "" {
		replayDir = filepath.Join(verifRoot, ".build", "matrix-replays")
	}
	os.MkdirAll(replayDir, 0755)
	if old, _ := filepath.Glob(filepath.Join(replayDir, prop+"-*.json")); old != nil {
		for _, f := range old {
			os.Remove(f)
		}
	}
	var unstable []string
	histTries := 0
	for _, v := range viols {
		if seen[v.Sig] {
			continue
		}
		rf := ReplayFile{Desc: v.Desc, Thorough: tier == "thorough", Sig: v.Sig, Detail: v.Detail, Trace: v.Trace, History: v.History,
			Note: fmt.Sprintf("minimised from %d to %d tape values with %d candidates; replay: ./check %s --replay <this file>", v.OrigLen, v.MinLen, v.ShrinkN, prop)}
		if v.History != nil {
			rf.Note = fmt.Sprintf("not minimised: the run fails only after the earlier runs of worker %d of %d (base seed %d), which the replay re-executes; replay: ./check %s --replay <this file>", v.History.WIdx, v.History.WN, v.History.Base, prop)
		}
		name := fmt.Sprintf("%s-%d-%s.json", prop, v.Desc.Seed, sigSlug(v.Sig))
		path := filepath.Join(replayDir, name)
		js, _ := json.MarshalIndent(rf, "", " ")
		os.WriteFile(path, js, 0644)
		if !strings.Contains(v.Sig, "/crash/") && !strings.Contains(v.Sig, "/hang/") {
			// the file must reproduce its signature in a fresh process
			ok := false
			var last string
			for attempt := 0; attempt < 2 && !ok; attempt++ {
				sig2, herr := replayOnce(path, scratch)
				last = fmt.Sprintf("%q (harness: %s)", sig2, herr)
				ok = herr == "" && sig2 == v.Sig
			}
			if !ok && v.History == nil && histTries < 3 && strings.HasPrefix(last, `"" (harness: )`) {
				// alone, in a fresh process, the run passes. Does it fail after the runs its worker
				// had executed before it? Then the library keeps state process-wide, left behind by
				// earlier connections, and the replay is the worker's sequence up to this run.
				histTries++
				rf.History = &HistSpec{Base: seed, WIdx: v.Worker, WN: nw}
				rf.Desc.Tape = nil // the run as the worker first executed it
				rf.Note = fmt.Sprintf("not minimised: the run fails only after the earlier runs of worker %d of %d (base seed %d), which the replay re-executes (state carried from earlier connections in the same process); replay: ./check %s --replay <this file>", v.Worker, nw, seed, prop)
				js, _ := json.MarshalIndent(rf, "", " ")
				os.WriteFile(path, js, 0644)
				sig2, herr := replayOnce(path, scratch)
				last = fmt.Sprintf("%q (harness: %s) [after the worker's earlier runs]", sig2, herr)
				ok = herr == "" && sig2 == v.Sig
			}
			if !ok {
				// another worker may hold a stable instance of the same signature
				unstable = append(unstable, fmt.Sprintf("replay of %s in a fresh process gave %s, expected %q", path, last, v.Sig))
				os.Remove(path)
				continue
			}
		}
		seen[v.Sig] = true
		rep := reported{sig: v.Sig, path: path}
		for _, k := range known {
			if k.Property == prop && k.Status == "open" {
				if re, err := regexp.Compile(k.Signature); err == nil && re.MatchString(v.Sig) {
					rep.known, rep.what = true, k.What
				}
			}
		}
		reports = append(reports, rep)
	}
	for _, u := range unstable {
		fmt.Printf("UNSTABLE-REPLAY: %s\n", short(u, 400))
	}
	if len(unstable) > 0 && len(reports) == 0 {
		// violations were seen but none replays: the simulation is not deterministic here
		harness = append(harness, unstable...)
	}

	wall := time.Since(start).Seconds()
	nviol := 0
	for _, r := range reports {
		if !r.known {
			nviol++
		}
	}
	if os.Getenv("VERIF_NO_EVIDENCE") == "" {
		writeEvidence(p, tier, seed, tot, len(hashes), wall, nviol, nw, reportsToStrings(len(reports), nviol), harness)
	}

	// ---- report
	fmt.Printf("dsim: runs=%d (seeded %d) distinct-nontrivial=%d sim-time=%s wall=%.1fs leftover-goroutine-runs=%d\n",
		tot.Runs, tot.SeededRuns, len(hashes), time.Duration(tot.SimNs), wall, tot.Leftover)
	for _, k := range sortedScen(tot.Scen) {
		st := tot.Scen[k]
		if st.SweepN > 0 {
			fmt.Printf("dsim:   scenario %-28s runs=%d sweep=%d/%d exhaustive=%v\n", k, st.Runs, st.SweepDone, st.SweepN, st.Exhaust && st.SweepDone == st.SweepN)
		} else {
			fmt.Printf("dsim:   scenario %-28s runs=%d\n", k, st.Runs)
		}
	}
	fmt.Printf("dsim: faults fired: %s\n", fmtCounts(tot.Faults))
	fmt.Printf("dsim: probes: %s\n", fmtCounts(tot.Probes))
	if len(harness) > 0 {
		for i, h := range harness {
			if i >= 3 {
				fmt.Printf("HARNESS-ERROR: ... and %d more\n", len(harness)-3)
				break
			}
			fmt.Printf("HARNESS-ERROR: %s\n", short(h, 900))
		}
		return 2
	}
	for _, r := range reports {
		if r.known {
			fmt.Printf("KNOWN-FINDING: property=%s %s (signature %s, replay %s)\n", prop, r.what, r.sig, r.path)
		}
	}
	rc := 0
	for _, r := range reports {
		if !r.known {
			fmt.Printf("VIOLATION property=%s replay=%s\n", prop, r.path)
			fmt.Printf("dsim:   signature: %s\n", r.sig)
			rc = 1
		}
	}
	if rc == 0 {
		// self-assessment: probes that must be reached
		if tier == "thorough" {
			for _, mp := range p.MustProbes {
				if tot.Probes[mp] == 0 && tot.Faults[mp] == 0 {
					fmt.Printf("HARNESS-ERROR: reach probe %q stayed at zero in a thorough run\n", mp)
					return 2
				}
			}
		}
		if tot.Runs == 0 {
			fmt.Println("HARNESS-ERROR: no runs executed")
			return 2
		}
		nk := 0
		for _, r := range reports {
			if r.known {
				nk++
			}
		}
		if nk > 0 {
			fmt.Printf("dsim: property %s: nothing beyond the %d known finding(s) listed above on everything explored\n", prop, nk)
		} else {
			fmt.Printf("dsim: property %s held on everything explored\n", prop)
		}
	}
	return rc
}

func reportsToStrings(n, nv int) string {
	return fmt.Sprintf("%d distinct violation signatures, %d not listed as known findings", n, nv)
}

func sortedScen(m map[string]*ScenStat) []string {
	ks := make([]string, 0, len(m))
	for k := range m {
		ks = append(ks, k)
	}
	sort.Strings(ks)
	return ks
}

func fmtCounts(m map[string]int) string {
	var sb strings.Builder
	for _, k := range sortedKeys(m) {
		fmt.Fprintf(&sb, "%s=%d ", k, m[k])
	}
	if sb.Len() == 0 {
		return "(none)"
	}
	return sb.String()
}

func sigSlug(s string) string {
	var sb strings.Builder
	for _, r := range s {
		switch {
		case r >= 'a' && r <= 'z', r >= 'A' && r <= 'Z', r >= '0' && r <= '9':
			sb.WriteRune(r)
		default:
			sb.WriteByte('_')
		}
	}
	out := sb.String()
	if len(out) > 70 {
		out = out[:70]
	}
	return out
}

// replayOnce runs a replay file in a fresh process and returns the signature it produced.
func replayOnce(path, scratch string) (sig string, harnessErr string) {
	outf := filepath.Join(scratch, fmt.Sprintf("replay-%d.json", time.Now().UnixNano()))
	env := []string{"VERIF_ROLE=replay", "GOMAXPROCS=1", "GODEBUG=asyncpreemptoff=1", "VERIF_REPLAY=" + path, "VERIF_OUT=" + outf}
	code, se := runChild(env, 1<<14)
	if code != 0 {
		return fmt.Sprintf("exit %d", code), short(se, 600)
	}
	b, err := os.ReadFile(outf)
	if err != nil {
		return "", err.Error()
	}
	var o struct {
		Sig     string `json:"sig"`
		Harness string `json:"harness"`
	}
	json.Unmarshal(b, &o)
	return o.Sig, o.Harness
}

func orchReplay(p *Property, path string) int {
	b, err := os.ReadFile(path)
	if err != nil {
		fmt.Fprintln(os.Stderr, err)
		return 2
	}
	var rf ReplayFile
	if json.Unmarshal(b, &rf) != nil {
		fmt.Fprintln(os.Stderr, "bad replay file")
		return 2
	}
	os.MkdirAll(filepath.Join(verifRoot, ".build"), 0755)
	scratch, _ := os.MkdirTemp(filepath.Join(verifRoot, ".build"), "replay-")
	defer os.RemoveAll(scratch)
	if strings.Contains(rf.Sig, "/crash/") || strings.Contains(rf.Sig, "/hang/") {
		env := []string{"VERIF_ROLE=replay", "GOMAXPROCS=1", "GODEBUG=asyncpreemptoff=1", "VERIF_REPLAY=" + path, "VERIF_HANG_S=15"}
		if rf.History != nil {
			env[len(env)-1] = "VERIF_HANG_S=120"
		}
		code, se := runChild(env, 1<<14)
		if code != 0 && code != 4 {
			fmt.Printf("dsim: replay died again (exit %d): %s\n", code, short(firstFatal(se), 300))
			fmt.Printf("VIOLATION property=%s replay=%s\n", p.ID, path)
			return 1
		}
		fmt.Printf("dsim: replay did not reproduce the crash (exit %d)\n", code)
		return 2
	}
	sig, herr := replayOnce(path, scratch)
	if herr != "" {
		fmt.Printf("HARNESS-ERROR: %s\n", herr)
		return 2
	}
	if sig == rf.Sig {
		fmt.Printf("dsim: replay reproduced signature %s\n", sig)
		fmt.Printf("VIOLATION property=%s replay=%s\n", p.ID, path)
		return 1
	}
	fmt.Printf("dsim: replay produced signature %q, file records %q\n", sig, rf.Sig)
	if sig == "" {
		return 0
	}
	return 2
}

func firstFatal(se string) string {
	for _, l := range strings.Split(se, "\n") {
		if strings.HasPrefix(l, "fatal error:") || strings.HasPrefix(l, "panic:") || strings.HasPrefix(l, "HANG") || strings.Contains(l, "runtime: out of memory") {
			return l
		}
	}
	return short(se, 200)
}

// triageDeadWorker decides what a worker that died means: it re-runs the run
// that was in progress, alone, in a fresh process. If that dies again the seed
// is reported as a violation (the library took the process down or span
// forever); otherwise it is harness trouble.
func triageDeadWorker(p *Property, tier string, r childResult, scratch string, widx int, hist *HistSpec) (*ViolationRec, string) {
	f := strings.Fields(r.prog)
	if len(f) < 4 || r.exit == 4 {
		return nil, fmt.Sprintf("worker %d exited %d before/without a run in progress: %s", widx, r.exit, short(r.stderr, 1500))
	}
	var d RunDesc
	d.Prop, d.Scen = f[0], f[1]
	fmt.Sscan(f[2], &d.Case)
	fmt.Sscan(f[3], &d.Seed)
	kind := "crash"
	if r.exit == 3 {
		kind = "hang"
	}
	sig := fmt.Sprintf("%s/%s/%s", p.ID, kind, d.Scen)
	rf := ReplayFile{Desc: d, Thorough: tier == "thorough", Sig: sig, Detail: short(firstFatal(r.stderr), 500)}
	path := filepath.Join(scratch, fmt.Sprintf("dead-%d.json", widx))
	js, _ := json.Marshal(rf)
	os.WriteFile(path, js, 0644)
	env := []string{"VERIF_ROLE=replay", "GOMAXPROCS=1", "GODEBUG=asyncpreemptoff=1", "VERIF_REPLAY=" + path, "VERIF_HANG_S=15"}
	code, se := runChild(env, 1<<15)
	if (code == 0 || code == 4) && kind == "crash" && hist != nil {
		// not alone: does it die again after the runs this worker had executed before it?
		// (state the library keeps process-wide, left behind by an earlier connection)
		rf.History = hist
		rf.Sig = fmt.Sprintf("%s/crash/after-earlier-runs/%s", p.ID, d.Scen)
		js, _ := json.Marshal(rf)
		os.WriteFile(path, js, 0644)
		code2, se2 := runChild(append(env, "VERIF_HANG_S=120"), 1<<15)
		if code2 != 0 && code2 != 4 && code2 != 3 && strings.Contains(se2, "go-diameter") {
			return &ViolationRec{Desc: d, Sig: rf.Sig, Detail: "process crash, only after the runs the same process executed earlier: " + short(firstFatal(se2), 400), RunIndex: 0,
				Trace: []string{"the run takes the worker process down when it follows the worker's earlier runs; see detail", short(se2, 1500)}, History: hist}, ""
		}
	}
	if code == 0 || code == 4 {
		return nil, fmt.Sprintf("worker %d died (exit %d) in run %v but the run alone exits %d: %s", widx, r.exit, r.prog, code, short(r.stderr, 1500))
	}
	if kind == "hang" && !strings.Contains(se, "go-diameter") {
		return nil, fmt.Sprintf("worker %d hung in run %v with no library frame on any stack: %s", widx, r.prog, short(se, 1500))
	}
	return &ViolationRec{Desc: d, Sig: sig, Detail: "process " + kind + ": " + short(firstFatal(se), 400), RunIndex: 0,
		Trace: []string{"the run takes the worker process down; see detail", short(se, 1500)}}, ""
}
