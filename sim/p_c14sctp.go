package dsim

import (
	"fmt"
	"io"
	"net"
	"sort"
	"strings"
	"sync"

	"github.com/fiorix/go-diameter/v4/diam"
)

// C14 on an SCTP association: closeNotify installs an error handler on the
// multistream connection instead of the pipe/copier pair.
func c14Sctp(e *Env) {
	t := e.T
	e.TrustWait = true
	e.maxStep = 80
	be := newSimSCTP(e)
	msc := diam.NewVerifSCTPConn(be)
	defer diam.VerifSCTPRelease(msc)
	var mu sync.Mutex
	var chans []cnChan
	var entered []int
	cnPlan := map[int]bool{}
	record := func(ch <-chan struct{}, kind string) {
		mu.Lock()
		chans = append(chans, cnChan{ch, kind, e.Seq()})
		mu.Unlock()
		e.Probe("sctp-cn-" + kind)
	}
	mux := diam.NewServeMux()
	if e.T.Chance(1, 3) {
		// an earlier error report on this mux that nobody has collected
		mux.Error(&diam.ErrorReport{Error: fmt.Errorf("sim: an earlier report nobody collected")})
		e.Probe("error-report-slot-occupied")
	}
	mux.HandleFunc("ALL", func(c diam.Conn, m *diam.Message) {
		seq := -1
		if len(m.AVP) > 0 {
			if _, s, ok := parseMarker(m.AVP[0].Data.Serialize()); ok {
				seq = s
			}
		}
		mu.Lock()
		entered = append(entered, seq)
		want := cnPlan[seq]
		mu.Unlock()
		if want {
			record(c.(diam.CloseNotifier).CloseNotify(), "from-handler")
		}
	})
	conn, err := diam.NewConn(msc.(net.Conn), "sim", mux, simDict())
	if err != nil {
		e.Harness("NewConn: %v", err)
	}
	// one stream keeps the order oracle simple; chunking still varies
	n := t.Range(1, 4)
	var all []byte
	var bounds []int
	for k := 0; k < n; k++ {
		size := []int{0, 60, 1100}[t.Draw(3)]
		m := RefMsg{Cmd: 900, Flags: 0x80, HbH: uint32(k + 1), E2E: uint32(k + 1), AVPs: []RefAVP{{Code: avpSimOctets, Data: marker(0, k, 24+size, byte(k))}}}
		all = append(all, m.Bytes()...)
		bounds = append(bounds, len(all))
		cnPlan[k] = t.Chance(1, 4)
	}
	var chunks []sctpChunk
	for pos := 0; pos < len(all); {
		k := []int{len(all) - pos, t.Range(1, 19), 20, t.Range(21, 300)}[t.Draw(4)]
		if k > len(all)-pos {
			k = len(all) - pos
		}
		chunks = append(chunks, sctpChunk{3, all[pos : pos+k]})
		pos += k
	}
	term := []string{"peer-eof", "read-error", "local-close"}[t.Draw(3)]
	termAt := t.Range(0, len(chunks)) // after this many chunks
	e.Act("sctp-cn", "msgs=%d chunks=%d term=%s after %d chunks", n, len(chunks), term, termAt)
	e.Probe("sctp-term:" + term)
	terminated := func() bool { return be.IsClosed() || be.EndSeen() }
	check := func() bool {
		e.Quiesce()
		tm := terminated()
		mu.Lock()
		defer mu.Unlock()
		for _, c := range chans {
			if isClosed(c.ch) && !tm {
				e.Fail("C14/closed-before-termination/sctp/req="+c.kind, "a CloseNotify channel (requested %s) is closed while the association is alive", c.kind)
				return false
			}
		}
		for i, s := range entered {
			if s != i {
				e.Fail("C14/messages-lost-duplicated-or-reordered/sctp", "handlers saw %v", entered)
				return false
			}
		}
		if strings.Contains(e.LogText(), "panic serving") {
			e.Fail("C14/panic-on-connection/sctp", "%s", short(e.LogText(), 300))
			return false
		}
		return true
	}
	cnTask := func(kind string) bool {
		var ch <-chan struct{}
		done := make(chan struct{})
		go func() { ch = conn.(diam.CloseNotifier).CloseNotify(); close(done) }()
		e.Quiesce()
		select {
		case <-done:
		default:
			e.Fail("C14/call-blocked/CloseNotify/sctp", "CloseNotify did not return")
			return false
		}
		record(ch, kind)
		return true
	}
	fed, fedBytes := 0, 0
	ok := check()
	for ok && fed < termAt && e.Step() {
		if t.Chance(1, 4) {
			if !cnTask("from-task") {
				return
			}
		}
		be.Feed(chunks[fed])
		fedBytes += len(chunks[fed].data)
		fed++
		e.Act("feed", "%d/%d", fed, len(chunks))
		e.NonTrivial()
		ok = check()
	}
	if ok {
		switch term {
		case "peer-eof":
			be.End(io.EOF)
		case "read-error":
			be.End(errSimReset)
		case "local-close":
			done := make(chan struct{})
			go func() { conn.Close(); close(done) }()
			e.Quiesce()
			<-done
		}
		e.Fault("sctp-" + term)
		ok = check()
	}
	if ok {
		if !terminated() {
			e.Harness("C14 sctp: association did not terminate (%s)", term)
		}
		if !cnTask("after-termination") {
			return
		}
		e.Quiesce()
		mu.Lock()
		kinds := map[string]bool{}
		open := 0
		for _, c := range chans {
			if !isClosed(c.ch) {
				open++
				kinds[c.kind] = true
			}
		}
		nEntered := len(entered)
		mu.Unlock()
		if open > 0 {
			var ks []string
			for k := range kinds {
				ks = append(ks, k)
			}
			sort.Strings(ks)
			e.Fail(fmt.Sprintf("C14/never-closed/sctp/req=%s/term=%s", strings.Join(ks, "+"), term), "the association has terminated (%s) and %d CloseNotify channel(s) requested %v are still open", term, open, ks)
		}
		if term == "peer-eof" && !e.Failed() {
			complete := 0
			for _, b := range bounds {
				if b <= fedBytes {
					complete++
				}
			}
			if nEntered != complete {
				e.Fail("C14/messages-lost-duplicated-or-reordered/sctp", "%d complete messages were received before EOF, handlers saw %d", complete, nEntered)
			}
		}
	}
	be.End(io.EOF)
	e.Quiesce()
	if left := e.LibGoroutines(); len(left) > 0 && !e.Failed() {
		e.Fail("C14/goroutine-leak/sctp/term="+term, "%d library goroutine(s) remain after the association terminated:\n%s", len(left), short(left[0], 700))
	}
}
