package dsim

import (
	"context"
	"crypto/tls"
	"fmt"
	"io"
	"runtime"
	"sort"
	"strings"
	"sync"
	"sync/atomic"
	"time"

	"github.com/fiorix/go-diameter/v4/diam"
	"github.com/fiorix/go-diameter/v4/diam/datatype"
	"github.com/fiorix/go-diameter/v4/diam/dict"
)

// The server world: diam.Server.Serve over a SimListener (and optionally
// diam.NewConn "dialled" connections), scripted peers, instrumented handlers
// that park until the engine releases them. Used by C08, C09, C15 and C16.

type srvCfg struct {
	prop          string
	nConns        int
	nDialled      int
	msgsPer       [2]int // min,max messages per connection
	parkPct       int    // % of handlers that park until released
	answerPct     int    // % of requests the handler answers
	wideHdr       bool   // C16: boundary ids, all flag bytes
	table         bool   // C09: drawn registration table instead of a single ALL handler
	rereg         bool   // C09: re-registrations between messages
	panicPct      int    // C15: % of messages whose handler panics (on faulty conns)
	malformed     bool   // C15
	rst           bool   // C15
	acceptErrs    bool   // C15
	lateConn      bool   // C15: a connection opened after all faults
	bigMsgs       bool
	yields        bool        // park serve loops at yield sites
	extraReg      bool        // register unrelated handlers while the server runs
	cnTasks       bool        // CloseNotify requested from other goroutines
	deferPct      int         // % of answers built and written later by another goroutine
	doubleConn    bool        // two connections may reach the listener before it is served
	stallPct      int         // % of synchronous answers whose transport write stalls until resumed
	largePct      int         // % of requests (hence echoed answers) larger than the 1 KiB pooled write buffer
	lazyResume    bool        // stalled writes are resumed reluctantly, so that several pile up
	sched         []schedTok  // enumerated schedule (C08 sweep): what the engine does, step by step
	parkMask      int         // with sched: bit (2*conn+msg) set = that handler parks until released
	tableForce    *tableForce // enumerated registration table and message (C09 sweep)
	malformedOnly []int       // restrict undecodable messages to these kinds (indexes into malformedKinds)
	bareDict      bool        // the connections use a dictionary that defines the commands and the harness's AVPs but no base AVPs (no Result-Code)
	idxRegs       bool        // besides the catch-all, exact-index handlers for some commands (every message still has a handler)
	nilHandler    bool        // the Server (and dialled connections) get a nil Handler: diam.DefaultServeMux serves
	tlsStall      bool        // one more peer connects over TLS and never gets through its handshake
	force         *srvForce   // enumerated fault placement (sweep)
	hdr           *hdrForce   // enumerated request header (C16 sweep)
}

// schedTok is one step of an enumerated schedule: deliver the next whole message of a
// connection, or release the handler parked on it.
type schedTok struct {
	conn int
	op   byte // 'd' or 'r'
}

// tableForce pins the registration table (a subset of the registrations that could
// compete for one message) and that message.
type tableForce struct {
	app, code uint32
	req       bool
	mask      int // bit i set = registration i of c09SweepRegs is made
	all       int // 0 none, 1 "ALL" by name, 2 ALL_CMD_INDEX
}

// hdrForce pins the header of the single request of a run.
type hdrForce struct {
	flags    byte
	hbh, e2e uint32
	rc       uint32
}

// srvForce pins where and what the single fault of a run is.
type srvForce struct {
	conn, pos  int
	kind       string // "panic", "rst-mid" or "malformed"
	malformed  int    // index into the malformed kinds
	acceptErrs int
}

type plan struct {
	park   bool
	answer bool
	rc     uint32
	panics bool
	later  bool // the answer is built and written later, from another goroutine
	stall  bool // the peer has stopped reading: the answer's write parks inside the transport
}

type sentMsg struct {
	ref           RefMsg
	bytes         []byte
	start         int // offset in the connection's byte stream
	plan          plan
	bad           string // non-empty: a malformed item of this kind
	entered       bool
	exited        bool
	unhandledDone bool // consumed with no matching registration (C09)
}

type peerConn struct {
	cancel     context.CancelFunc // the application's own cancellable context hung on this connection
	idx        int
	name       string
	sc         *SimConn
	stream     []byte // everything the peer will send
	sent       int    // bytes delivered so far
	msgs       []*sentMsg
	end        string // "", "eof", "rst" (after stream), "rst-mid"
	endAt      int    // for rst-mid: offset at which the reset happens
	ended      bool
	dialled    bool
	faulty     bool // a fault was planned on this connection
	faultAt    int  // index of the first faulty message (-1 none)
	connected  bool
	recv       []byte
	answers    []RefMsg
	late       bool
	closedSeen bool
	dc         diam.Conn // the diam.Conn of this connection once known
	guaranteed int       // stream bytes the library is known to have received (after a reset: those read before it)
	wasReset   bool
	tls        bool // served through crypto/tls; the peer never completes the handshake
}

type invocation struct {
	conn, seq   int
	hname       string
	enter, exit uint64
	regVer      int
	rel         chan string
	m           *diam.Message
	c           diam.Conn
	active      bool
	writeErr    error
}

type srvWorld struct {
	ctxPlay  bool // handlers hang a cancellable context on their connection and cancel it later
	e        *Env
	cfg      srvCfg
	mux      *diam.ServeMux
	lis      *SimListener
	conns    []*peerConn
	serveRet chan error
	served   bool

	mu              sync.Mutex
	invs            []*invocation
	parked          []*invocation
	regs            refRegs
	regVer          int
	nextH           int
	reports         []*diam.ErrorReport
	stepReports     []*diam.ErrorReport
	unknownEnter    int
	yielded         []*yieldPark
	regHist         map[int]refRegs
	needClock       bool
	reregLeft       int
	panicKind       int // what handlers of this run panic with
	schedPos        int
	extraRegLeft    int
	cnLeft          int
	deferred        []*invocation
	yieldsOff       atomic.Bool
	closing         atomic.Bool
	trailingHandled int
}

type yieldPark struct {
	site string
	ch   chan struct{}
}

// refRegs is the reference registration table (C09).
type refRegs struct {
	idx  map[[3]uint32]string // (app, code, isReq)
	name map[string]string
	all  string
}

func (r refRegs) sel(app, code uint32, isReq bool) string {
	req := uint32(0)
	if isReq {
		req = 1
	}
	short := simShort(app, code)
	if short == "" {
		// command unknown to the dictionary: such a message cannot be decoded at all
		return ""
	}
	if h, ok := r.idx[[3]uint32{app, code, req}]; ok {
		return h
	}
	suffix := "A"
	if isReq {
		suffix = "R"
	}
	if h, ok := r.name[short+suffix]; ok {
		return h
	}
	return r.all
}

func newSrvWorld(e *Env, cfg srvCfg) *srvWorld {
	w := &srvWorld{e: e, cfg: cfg, mux: diam.NewServeMux(), lis: newSimListener(e), serveRet: make(chan error, 1)}
	if cfg.nilHandler {
		// "Handler is typically nil, in which case the DefaultServeMux is used": a fresh one per run
		diam.DefaultServeMux = w.mux
		e.Probe("default-serve-mux")
	}
	w.regs = refRegs{idx: map[[3]uint32]string{}, name: map[string]string{}}
	if cfg.prop == "C08" && e.T.Chance(1, 4) {
		w.ctxPlay = true
	}
	return w
}

func (w *srvWorld) dict() *dict.Parser {
	if w.cfg.bareDict {
		return simDictBare()
	}
	return simDict()
}

// handler returns an instrumented handler registered under hname.
func (w *srvWorld) handler(hname string) diam.HandlerFunc {
	return func(c diam.Conn, m *diam.Message) {
		e := w.e
		inv := &invocation{hname: hname, enter: e.Seq(), rel: make(chan string), m: m, c: c, conn: -1, seq: -1, active: true}
		if len(m.AVP) > 0 {
			if ci, si, ok := parseMarker(m.AVP[0].Data.Serialize()); ok {
				inv.conn, inv.seq = ci, si
			}
		}
		var pl plan
		w.mu.Lock()
		inv.regVer = w.regVer
		w.invs = append(w.invs, inv)
		if inv.conn >= 0 && inv.conn < len(w.conns) && inv.seq >= 0 && inv.seq < len(w.conns[inv.conn].msgs) {
			sm := w.conns[inv.conn].msgs[inv.seq]
			pl = sm.plan
			sm.entered = true
			if w.conns[inv.conn].dc == nil {
				w.conns[inv.conn].dc = c
			}
		} else if inv.seq >= 1000 {
			w.trailingHandled++
		} else {
			w.unknownEnter++
		}
		if w.closing.Load() {
			pl.park = false
		}
		if pl.park {
			w.parked = append(w.parked, inv)
			e.ParkBegin(true)
		}
		var pcx *peerConn
		if w.ctxPlay && inv.conn >= 0 && inv.conn < len(w.conns) {
			pcx = w.conns[inv.conn]
		}
		w.mu.Unlock()
		if pcx != nil {
			// the application's own bookkeeping: the first handler hangs a cancellable context
			// (derived from the connection's) on the connection, a later one that is about to
			// wait cancels it. Its business only: the connection is served as before.
			if pcx.cancel == nil {
				ctx, cancel := context.WithCancel(c.Context())
				c.SetContext(ctx)
				pcx.cancel = cancel
			} else if pl.park {
				pcx.cancel()
				e.Probe("application-context-cancelled-while-handler-waits")
			}
		}
		e.Poke()
		if pl.park {
			<-inv.rel // accounted under w.mu above; un-accounted by the releaser
		}
		if pl.answer && pl.later && !pl.panics {
			w.mu.Lock()
			w.deferred = append(w.deferred, inv)
			w.mu.Unlock()
		} else if pl.answer {
			a := m.Answer(pl.rc)
			if len(m.AVP) > 0 {
				a.NewAVP(avpSimOctets, 0, 0, datatype.OctetString(m.AVP[0].Data.Serialize()))
			}
			if pl.stall && !w.closing.Load() && inv.conn >= 0 && inv.conn < len(w.conns) {
				w.conns[inv.conn].sc.ArmWriteFault(&WriteFault{Kind: "stall", After: 3})
			}
			_, err := a.WriteTo(c)
			inv.writeErr = err
		}
		w.mu.Lock()
		inv.exit = e.Seq()
		inv.active = false
		if inv.conn >= 0 && inv.conn < len(w.conns) && inv.seq >= 0 && inv.seq < len(w.conns[inv.conn].msgs) {
			w.conns[inv.conn].msgs[inv.seq].exited = true
		}
		w.mu.Unlock()
		if pl.panics {
			e.Fault("handler-panic")
			// handlers panic with all sorts of values: a string, an error, values of types
			// that cannot be compared (a slice-based error, a map)
			switch w.panicKind {
			case 0:
				panic("sim: handler panic")
			case 1:
				panic(fmt.Errorf("sim: handler panic (error value) c%d/m%d", inv.conn, inv.seq))
			case 2:
				panic(simSliceErr{"sim", "handler panic", "slice-typed error"})
			case 3:
				panic(map[string]int{"sim: handler panic": inv.seq})
			default:
				// not a panic at all: the handler ends its goroutine (the connection is over all the same)
				runtime.Goexit()
			}
		}
	}
}

func (w *srvWorld) newH() string {
	w.nextH++
	return fmt.Sprintf("h%d", w.nextH)
}

// register applies a registration to the real mux and to the reference table.
func (w *srvWorld) register(kind string, app, code uint32, isReq bool, name string) {
	h := w.newH()
	w.regVer++
	switch kind {
	case "idx":
		w.mux.HandleIdx(diam.CommandIndex{AppID: app, Code: code, Request: isReq}, w.handler(h))
		r := uint32(0)
		if isReq {
			r = 1
		}
		w.regs.idx[[3]uint32{app, code, r}] = h
		w.e.Act("reg-idx", "%d/%d/%v -> %s", app, code, isReq, h)
	case "name":
		w.mux.HandleFunc(name, w.handler(h))
		w.regs.name[name] = h
		w.e.Act("reg-name", "%s -> %s", name, h)
	case "all":
		w.mux.HandleFunc("ALL", w.handler(h))
		w.regs.all = h
		w.e.Act("reg-all", "-> %s", h)
	case "allidx":
		w.mux.HandleIdx(diam.ALL_CMD_INDEX, w.handler(h))
		w.regs.all = h
		w.e.Act("reg-allidx", "-> %s", h)
	}
}

var c16IDs = []uint32{0, 1, 1 << 31, 0xffffffff}

// genMsgs plans the traffic of one connection.
func (w *srvWorld) genConn(i int, dialled, late bool) *peerConn {
	e, t, cfg := w.e, w.e.T, w.cfg
	pc := &peerConn{idx: i, name: fmt.Sprintf("c%d", i), dialled: dialled, faultAt: -1, late: late}
	pc.sc = newSimConn(e, pc.name, drawAddr(t, 3868), drawAddr(t, 40000+i))
	if t.Chance(1, 4) {
		pc.sc.MaxRead = t.Range(1, 40)
	}
	n := t.Range(cfg.msgsPer[0], cfg.msgsPer[1])
	wantFault := ""
	if !late && !dialled {
		opts := []string{""}
		if cfg.panicPct > 0 {
			opts = append(opts, "panic")
		}
		if cfg.malformed {
			opts = append(opts, "malformed")
		}
		if cfg.rst {
			opts = append(opts, "rst-mid")
		}
		if len(opts) > 1 && t.Chance(1, 2) {
			wantFault = opts[1+t.Draw(len(opts)-1)]
		}
	}
	if cfg.force != nil {
		wantFault = ""
		n = 3
		if !late && cfg.force.conn == i {
			wantFault = cfg.force.kind
		}
	}
	faultPos := -1
	if wantFault != "" {
		faultPos = t.Draw(n + 1)
		if cfg.force != nil {
			faultPos = cfg.force.pos
		}
		if wantFault == "panic" && faultPos >= n {
			faultPos = n - 1
		}
		pc.faulty = true
		pc.faultAt = faultPos
	}
	for k := 0; k < n; k++ {
		if wantFault == "malformed" && k == faultPos {
			kind, b := genMalformedKind(t, i, k, w.forcedMalformed())
			sm := &sentMsg{bytes: b, start: len(pc.stream), bad: kind}
			pc.msgs = append(pc.msgs, sm)
			pc.stream = append(pc.stream, b...)
			e.Fault("malformed:" + kind)
			e.Obs("plan %s item %d: malformed %s, %d bytes incl. trailing message", pc.name, k, kind, len(b))
			continue
		}
		cmd := simCmds[t.Draw(len(simCmds))]
		m := RefMsg{Cmd: cmd.Code, App: cmd.App}
		isReq := t.Chance(3, 4)
		if cfg.table {
			// include applications that fall back to the base dictionary
			if t.Chance(1, 4) {
				m.App = []uint32{1001, 1002, 4242, 0xffffffff, 4, 16777251}[t.Draw(6)]
				m.Cmd = []uint32{900, 901, 910, 280}[t.Draw(4)]
			}
			isReq = t.Chance(1, 2)
		}
		if cfg.prop == "C16" || cfg.prop == "C15" {
			isReq = true
		}
		if f := cfg.tableForce; f != nil {
			m.App, m.Cmd, isReq = f.app, f.code, f.req
		}
		if simShort(m.App, m.Cmd) == "" {
			m.App, m.Cmd = 0, 900
		}
		if isReq {
			m.Flags = 0x80
		}
		m.HbH = uint32(100*i + k + 1)
		m.E2E = uint32(t.Draw(1<<30)) + 1
		if cfg.wideHdr {
			m.Flags = 0x80 | byte(t.Draw(128))
			pick := func() uint32 {
				if t.Chance(2, 3) {
					return c16IDs[t.Draw(len(c16IDs))]
				}
				return uint32(t.Draw(1<<30))<<2 | uint32(t.Draw(4))
			}
			m.HbH, m.E2E = pick(), pick()
		} else if t.Chance(1, 4) {
			m.Flags |= 0x40
		}
		if !cfg.wideHdr && k > 0 && t.Chance(1, 8) {
			if prev := pc.msgs[len(pc.msgs)-1]; prev.bad == "" {
				// the peer uses the previous End-to-End id again (a request sent again carries the T
				// flag; another message may simply collide): each message is still dispatched
				m.E2E = prev.ref.E2E
				if isReq {
					m.Flags |= 0x10
				}
				e.Probe("end-to-end-id-used-again")
			}
		}
		size := t.Pick(6, 2, 1)
		n := []int{0, 300, 1100}[size] + t.Draw(60)
		if cfg.bigMsgs && t.Chance(1, 6) {
			n = 4000 + t.Draw(3000)
		}
		if cfg.largePct > 0 && t.Draw(100) < cfg.largePct {
			n = 1100 + t.Draw(2000)
		}
		m.AVPs = []RefAVP{{Code: avpSimOctets, Data: marker(i, k, n, byte(i*16+k))}}
		if t.Chance(1, 3) {
			m.AVPs = append(m.AVPs, RefAVP{Code: avpSimU32, Data: u32(uint32(k))})
		}
		sm := &sentMsg{ref: m, bytes: m.Bytes(), start: len(pc.stream)}
		sm.plan.park = t.Draw(100) >= 100-cfg.parkPct
		if isReq {
			sm.plan.answer = t.Draw(100) >= 100-cfg.answerPct
		}
		if sm.plan.answer && cfg.deferPct > 0 {
			sm.plan.later = t.Draw(100) >= 100-cfg.deferPct
		}
		if sm.plan.answer && !sm.plan.later && cfg.stallPct > 0 {
			sm.plan.stall = t.Draw(100) >= 100-cfg.stallPct
		}
		if sm.plan.answer {
			switch t.Pick(3, 3, 1, 1, 1) {
			case 0:
				sm.plan.rc = 2001
			case 1:
				sm.plan.rc = 0
			case 2:
				sm.plan.rc = 3001 + uint32(t.Draw(10))
			case 3:
				sm.plan.rc = 5001 + uint32(t.Draw(20))
			default:
				sm.plan.rc = 0xffffffff
			}
		}
		if wantFault == "panic" && k == faultPos {
			sm.plan.panics = true
		}
		if cfg.sched != nil {
			sm.plan.park = cfg.parkMask&(1<<(2*i+k)) != 0
		}
		if cfg.hdr != nil {
			m.Flags, m.HbH, m.E2E = cfg.hdr.flags, cfg.hdr.hbh, cfg.hdr.e2e
			sm.ref = m
			sm.bytes = m.Bytes()
			sm.plan.answer, sm.plan.rc = true, cfg.hdr.rc
		}
		pc.msgs = append(pc.msgs, sm)
		pc.stream = append(pc.stream, sm.bytes...)
	}
	if wantFault == "malformed" && faultPos >= n {
		kind, b := genMalformedKind(t, i, n, w.forcedMalformed())
		sm := &sentMsg{bytes: b, start: len(pc.stream), bad: kind}
		pc.msgs = append(pc.msgs, sm)
		pc.stream = append(pc.stream, b...)
		e.Fault("malformed:" + kind)
	}
	if wantFault == "rst-mid" {
		pc.end = "rst-mid"
		if faultPos < len(pc.msgs) {
			sm := pc.msgs[faultPos]
			pc.endAt = sm.start + t.Range(1, len(sm.bytes)-1)
		} else {
			pc.endAt = len(pc.stream)
		}
	}
	return pc
}

// genMalformed builds an undecodable item followed by trailing valid-looking data.
var malformedKinds = []string{"avp-len-lt-8", "avp-len-gt-container", "vflag-short", "unknown-command", "decl-len-short", "garbage", "avp-len-zero-nested", "stray-tail-small", "stray-tail-large", "command-of-parent-application", "vflag-len-gt-container"}

func (w *srvWorld) forcedMalformed() int {
	if w.cfg.force != nil {
		return w.cfg.force.malformed
	}
	if only := w.cfg.malformedOnly; len(only) > 0 {
		return only[w.e.T.Draw(len(only))]
	}
	return -1
}

func genMalformed(t *Tape, conn, k int) (string, []byte) { return genMalformedKind(t, conn, k, -1) }

func genMalformedKind(t *Tape, conn, k int, forced int) (string, []byte) {
	mk := marker(conn, k, 24, 0x55)
	good := RefMsg{Cmd: 900, Flags: 0x80, HbH: 9, E2E: 9, AVPs: []RefAVP{{Code: avpSimOctets, Data: mk}}}
	trail := RefMsg{Cmd: 901, Flags: 0x80, HbH: 10, E2E: 10, AVPs: []RefAVP{{Code: avpSimOctets, Data: marker(conn, 1000+k, 40, 1)}}}.Bytes()
	var b []byte
	ki := t.Draw(len(malformedKinds))
	if forced >= 0 {
		ki = forced % len(malformedKinds)
	}
	kind := malformedKinds[ki]
	switch kind {
	case "avp-len-lt-8":
		m := good
		m.AVPs = []RefAVP{{Code: avpSimOctets, Data: mk, DeclLen: t.Draw(8), DeclSet: true}}
		b = m.Bytes()
	case "avp-len-gt-container":
		m := good
		m.AVPs = []RefAVP{{Code: avpSimOctets, Data: mk, DeclLen: 8 + len(mk) + 4 + t.Draw(4000)}}
		b = m.Bytes()
	case "vflag-short":
		m := good
		m.AVPs = []RefAVP{{Code: avpSimU32, Data: u32(7)}, {Code: 6000, Flags: 0x80, Vendor: 0, Data: nil, DeclLen: 8 + t.Draw(4)}}
		// hand-build: the V-flagged AVP declares 8..11 bytes
		hb := m.AVPs[0].Bytes()
		v := make([]byte, 12)
		v[0], v[1], v[2], v[3] = 0, 0, 0x17, 0x70
		v[4] = 0x80
		put24(v[5:8], m.AVPs[1].DeclLen)
		body := append(hb, v...)
		hdr := RefMsg{Cmd: 900, Flags: 0x80, HbH: 9, E2E: 9, Override: true, DeclLen: 20 + len(body)}.Bytes()[:20]
		b = append(hdr, body...)
	case "unknown-command":
		m := good
		m.Cmd = 7777
		b = m.Bytes()
	case "vflag-len-gt-container":
		// a vendor-specific AVP whose declared length runs past the end of the message
		m := good
		m.AVPs = []RefAVP{{Code: avpSimVendor, Flags: 0x80, Vendor: 9999, Data: mk, DeclLen: 12 + len(mk) + 4*(1+t.Draw(40)), DeclSet: true}}
		b = m.Bytes()
	case "command-of-parent-application":
		// a command code that exists, but neither in the message's application nor in the base one
		m := good
		pick := [][2]uint32{{16777251, 920}, {16777251, 922}, {4, 922}, {4, 921}, {1001, 920}}[t.Draw(5)]
		m.App, m.Cmd = pick[0], pick[1]
		b = m.Bytes()
	case "decl-len-short":
		m := good
		m.Override, m.DeclLen = true, t.Draw(20)
		b = m.Bytes()
	case "garbage":
		b = t.Bytes(28 + t.Draw(60))
		b[0] = 1
		put24(b[1:4], len(b))
		put24(b[5:8], 900)
		b[8], b[9], b[10], b[11] = 0, 0, 0, 0
		// body is random bytes: AVP lengths will not add up
		if len(b) >= 28 {
			put24(b[25:28], 3) // first AVP declares length 3
		}
	case "stray-tail-small", "stray-tail-large":
		// valid AVPs followed by 1-7 bytes that cannot be an AVP; the declared message length covers them
		n := 24
		if kind == "stray-tail-large" {
			n = 1010 + t.Draw(400)
		}
		m := good
		m.AVPs = []RefAVP{{Code: avpSimOctets, Data: marker(conn, k, n, 0x33)}}
		b = m.Bytes()
		b = append(b, t.Bytes(1+t.Draw(7))...)
		put24(b[1:4], len(b))
	default:
		inner := RefAVP{Code: avpSimOctets, Data: []byte("x"), DeclLen: t.Draw(8), DeclSet: true}
		m := good
		m.AVPs = []RefAVP{{Code: avpSimGroup, Group: []RefAVP{inner}}}
		b = m.Bytes()
	}
	return kind, append(b, trail...)
}

func (w *srvWorld) start() {
	srv := &diam.Server{Handler: w.mux, Dict: w.dict()}
	if w.cfg.nilHandler {
		srv.Handler = nil
	}
	go func() { w.serveRet <- srv.Serve(w.lis) }()
}

func (w *srvWorld) connect(pc *peerConn) {
	pc.connected = true
	if pc.dialled {
		var h diam.Handler = w.mux
		if w.cfg.nilHandler {
			h = nil
		}
		c, err := diam.NewConn(pc.sc, "sim:3868", h, w.dict())
		if err != nil {
			w.e.Harness("NewConn: %v", err)
		}
		pc.dc = c
		w.e.Act("dial", "%s", pc.name)
		return
	}
	if pc.tls {
		// a TLS peer whose handshake never completes (it sends nothing, or the start of a record)
		w.lis.Connect(tls.Server(pc.sc, &tls.Config{}))
		w.e.Act("connect-tls", "%s", pc.name)
		w.e.Fault("tls-peer-stalls-in-handshake")
		w.e.Probe("tls-handshake-stalled")
		return
	}
	w.lis.Connect(pc.sc)
	w.e.Act("connect", "%s", pc.name)
}

func (w *srvWorld) drainReports() {
	w.stepReports = w.stepReports[:0]
	for {
		select {
		case r := <-w.mux.ErrorReports():
			w.reports = append(w.reports, r)
			w.stepReports = append(w.stepReports, r)
		default:
			return
		}
	}
}

func (w *srvWorld) collect() {
	for _, pc := range w.conns {
		if !pc.connected {
			continue
		}
		pc.recv = append(pc.recv, pc.sc.TakeWritten()...)
		for {
			msg, rest, st := refFrame(pc.recv)
			if st != "ok" {
				break
			}
			rm, err := refParse(msg)
			if err != nil {
				w.e.Fail(w.cfg.prop+"/unparsable-output", "%s: the library wrote bytes the reference parser rejects: %v", pc.name, err)
			}
			pc.answers = append(pc.answers, rm)
			pc.recv = rest
		}
	}
}

// limit returns how many bytes of pc's stream may ever be delivered.
func (pc *peerConn) limit() int {
	if pc.end == "rst-mid" {
		return pc.endAt
	}
	return len(pc.stream)
}

// run drives the world until every planned byte is delivered and every handler released.
func (w *srvWorld) run() {
	w.runInner()
	w.teardown()
}

func (w *srvWorld) runInner() {
	e, t, cfg := w.e, w.e.T, w.cfg
	e.maxStep = 300
	if e.Thorough {
		e.maxStep = 900
	}
	// registration
	if cfg.tableForce != nil {
		w.forceTable(cfg.tableForce)
	} else if cfg.table {
		w.drawTable()
		if cfg.rereg {
			w.reregLeft = t.Draw(6)
		}
	} else {
		w.register("all", 0, 0, false, "")
		if cfg.idxRegs {
			for _, c := range simCmds {
				for _, req := range []bool{true, false} {
					if t.Chance(1, 2) {
						w.register("idx", c.App, c.Code, req, "")
					}
				}
			}
			w.e.Probe("index-registrations-beside-catch-all")
		}
		if cfg.extraReg {
			w.extraRegLeft = t.Draw(4)
		}
	}
	total := cfg.nConns + cfg.nDialled
	for i := 0; i < total; i++ {
		w.conns = append(w.conns, w.genConn(i, i >= cfg.nConns, false))
	}
	if cfg.lateConn {
		w.conns = append(w.conns, w.genConn(total, false, true))
	}
	if cfg.tlsStall {
		i := len(w.conns)
		pc := &peerConn{idx: i, name: fmt.Sprintf("c%d", i), faultAt: -1, tls: true}
		pc.sc = newSimConn(e, pc.name, drawAddr(t, 3868), drawAddr(t, 42000+i))
		pc.stream = [][]byte{{}, {0x16}, {0x16, 0x03, 0x01, 0x02}, {0x16, 0x03, 0x01, 0x00, 0x40, 0x01, 0x00}}[t.Draw(4)]
		w.conns = append(w.conns, pc)
	}
	if cfg.yields {
		w.installYields()
	}
	if cfg.cnTasks {
		w.cnLeft = t.Draw(4)
	}
	w.start()
	acceptErrsLeft := 0
	if cfg.force != nil {
		acceptErrsLeft = cfg.force.acceptErrs
	} else if cfg.acceptErrs {
		acceptErrsLeft = t.Draw(5)
		if t.Chance(1, 6) {
			acceptErrsLeft = 8 + t.Draw(7) // a long run of consecutive temporary errors
			e.Probe("long-accept-error-run")
		}
	}
	if cfg.panicPct > 0 {
		w.panicKind = t.Draw(5)
	}
	if !w.quiesceAndCheck() {
		return
	}
	for e.Step() {
		type act struct {
			kind string
			pc   *peerConn
			inv  *invocation
			yp   *yieldPark
			w    int
		}
		var acts []act
		for _, pc := range w.conns {
			if pc.late {
				continue
			}
			if !pc.connected {
				acts = append(acts, act{kind: "connect", pc: pc, w: 6})
				continue
			}
			if pc.sent < pc.limit() {
				acts = append(acts, act{kind: "deliver", pc: pc, w: 8})
			} else if !pc.ended && pc.end == "rst-mid" {
				acts = append(acts, act{kind: "rst", pc: pc, w: 4})
			}
		}
		w.mu.Lock()
		// canonical order (arrival order of simultaneously woken serve goroutines is the runtime's business)
		sort.Slice(w.parked, func(i, j int) bool {
			if w.parked[i].conn != w.parked[j].conn {
				return w.parked[i].conn < w.parked[j].conn
			}
			return w.parked[i].seq < w.parked[j].seq
		})
		for _, inv := range w.parked {
			acts = append(acts, act{kind: "release", inv: inv, w: 5})
		}
		for _, yp := range w.yielded {
			acts = append(acts, act{kind: "unyield", yp: yp, w: 5})
		}
		nActive := 0
		for _, inv := range w.invs {
			if inv.active {
				nActive++
			}
		}
		w.mu.Unlock()
		if acceptErrsLeft > 0 {
			acts = append(acts, act{kind: "accept-err", w: 3})
		}
		if w.needClock {
			acts = append(acts, act{kind: "clock", w: 6})
		}
		if cfg.cnTasks && w.cnLeft > 0 {
			for _, pc := range w.conns {
				w.mu.Lock()
				has := pc.dc != nil
				w.mu.Unlock()
				if has && !pc.sc.Closed() {
					acts = append(acts, act{kind: "cn-task", pc: pc, w: 3})
				}
			}
		}
		for _, pc := range w.conns {
			if pc.connected && pc.sc.Stalled() {
				rw := 3
				if cfg.lazyResume {
					rw = 1
				}
				acts = append(acts, act{kind: "resume-write", pc: pc, w: rw})
			}
		}
		w.mu.Lock()
		nDef := len(w.deferred)
		w.mu.Unlock()
		if nDef > 0 {
			acts = append(acts, act{kind: "deferred-answer", w: 4})
		}
		if w.extraRegLeft > 0 && nActive == 0 && len(w.yielded) == 0 {
			acts = append(acts, act{kind: "reg-extra", w: 2})
		}
		if cfg.rereg && w.reregLeft > 0 && nActive == 0 && len(w.yielded) == 0 {
			acts = append(acts, act{kind: "rereg", w: 2})
		}
		if len(acts) == 0 {
			break
		}
		ws := make([]int, len(acts))
		for i, a := range acts {
			ws[i] = a.w
		}
		if len(acts) > 1 {
			e.NonTrivial()
		}
		var a act
		wholeMsg := false
		if cfg.sched != nil {
			// enumerated schedule: the next token decides; a token that is not enabled is skipped
			if w.schedPos >= len(cfg.sched) {
				break
			}
			tok := cfg.sched[w.schedPos]
			w.schedPos++
			found := -1
			for i, c := range acts {
				switch {
				case tok.op == 'd' && c.kind == "connect" && c.pc.idx == tok.conn:
					found = i
					w.schedPos-- // connect first, the token stays
				case tok.op == 'd' && c.kind == "deliver" && c.pc.idx == tok.conn:
					found = i
				case tok.op == 'r' && c.kind == "release" && c.inv.conn == tok.conn:
					found = i
				}
				if found >= 0 {
					break
				}
			}
			if found < 0 {
				continue
			}
			a, wholeMsg = acts[found], true
		} else {
			a = acts[t.Pick(ws...)]
		}
		switch a.kind {
		case "connect":
			w.connect(a.pc)
			if cfg.doubleConn && !a.pc.dialled && t.Chance(1, 3) {
				// a second connection reaches the listener before the first one is being served
				for _, pc := range w.conns {
					if !pc.connected && !pc.dialled && !pc.late {
						w.connect(pc)
						e.Probe("back-to-back-accept")
						break
					}
				}
			}
		case "deliver":
			pc := a.pc
			rem := pc.limit() - pc.sent
			var k int
			sel := 3
			if !wholeMsg {
				sel = t.Pick(3, 2, 2, 2)
			}
			switch sel {
			case 0:
				k = rem
			case 1:
				k = 1
			case 2:
				k = t.Range(1, 64)
			default:
				// up to the end of the current message
				k = rem
				for _, sm := range pc.msgs {
					endOff := sm.start + len(sm.bytes)
					if endOff > pc.sent {
						k = endOff - pc.sent
						break
					}
				}
			}
			if k > rem {
				k = rem
			}
			pc.sc.Deliver(pc.stream[pc.sent : pc.sent+k])
			pc.sent += k
			e.Act("deliver", "%s %d (%d/%d)", pc.name, k, pc.sent, len(pc.stream))
		case "rst":
			a.pc.guaranteed = a.pc.sent - a.pc.sc.Unread()
			a.pc.wasReset = true
			a.pc.sc.EndRead(errSimReset, true)
			a.pc.ended = true
			e.Fault("rst-mid-message")
			e.Act("rst", "%s at %d", a.pc.name, a.pc.endAt)
		case "release":
			w.release(a.inv)
		case "unyield":
			w.unyield(a.yp)
		case "accept-err":
			if t.Chance(1, 3) {
				w.lis.FailAcceptTimeout()
			} else {
				w.lis.FailAccept()
			}
			acceptErrsLeft--
			w.needClock = true
			e.Fault("accept-temp-error")
			e.Act("accept-err", "")
		case "clock":
			// Serve sleeps after a temporary accept error; the back-off is the
			// only timer in this world. 2 s of fake time is the liveness bound.
			if e.Quiesce() {
				e.Advance(2 * time.Second)
				e.Quiesce() // Advance returns at the first library activity; let it finish before looking
				e.Act("clock", "+2s")
				if w.lis.Pending() == 0 {
					w.needClock = false
				}
			}
		case "rereg":
			w.reregLeft--
			if !w.regTask(w.reRegister) {
				return
			}
		case "cn-task":
			w.cnLeft--
			pc := a.pc
			w.mu.Lock()
			dc := pc.dc
			w.mu.Unlock()
			e.Act("cn-task", "%s", pc.name)
			e.Probe("closenotify-from-task")
			if !w.regTask(func() { dc.(diam.CloseNotifier).CloseNotify() }) {
				return
			}
		case "resume-write":
			a.pc.sc.Resume()
			e.Act("resume-write", "%s", a.pc.name)
			e.Probe("answer-write-stalled")
		case "deferred-answer":
			if !w.flushDeferred(1) {
				return
			}
		case "reg-extra":
			w.extraRegLeft--
			n := w.extraRegLeft
			if !w.regTask(func() {
				w.mux.HandleFunc(fmt.Sprintf("Q%dR", n), func(diam.Conn, *diam.Message) {})
			}) {
				return
			}
			e.Act("reg-extra", "Q%dR", n)
			e.Probe("runtime-registration")
		}
		if !w.quiesceAndCheck() {
			return
		}
		if e.Failed() {
			return
		}
	}
	w.drain()
}

// sortedParkedLocked returns the parked handlers in canonical (connection, message) order (w.mu held).
func (w *srvWorld) sortedParkedLocked() []*invocation {
	p := append([]*invocation{}, w.parked...)
	sort.Slice(p, func(i, j int) bool {
		if p[i].conn != p[j].conn {
			return p[i].conn < p[j].conn
		}
		return p[i].seq < p[j].seq
	})
	return p
}

func (w *srvWorld) release(inv *invocation) {
	w.mu.Lock()
	for i, p := range w.parked {
		if p == inv {
			w.parked = append(w.parked[:i], w.parked[i+1:]...)
			break
		}
	}
	w.mu.Unlock()
	w.e.Act("release", "c%d/m%d", inv.conn, inv.seq)
	w.e.ParkEnd(true)
	inv.rel <- "go"
}

// quiesceAndCheck settles the system and evaluates the per-step invariants.
func (w *srvWorld) quiesceAndCheck() bool {
	e := w.e
	e.Quiesce()
	w.drainReports()
	w.collect()
	if e.Failed() {
		return false
	}
	w.mu.Lock()
	defer w.mu.Unlock()
	cfg := w.cfg
	// what the library must have done by now, per connection
	held := false
	for _, inv := range w.invs {
		if inv.active {
			held = true
		}
	}
	// a handler that the engine does not hold, writing to a transport that is not stalled,
	// has no reason to be still running at a quiescent point
	for _, inv := range w.invs {
		if !inv.active || inv.conn < 0 || inv.conn >= len(w.conns) {
			continue
		}
		isParked := false
		for _, p := range w.parked {
			if p == inv {
				isParked = true
			}
		}
		if isParked || w.conns[inv.conn].sc.Stalled() || len(w.yielded) > 0 {
			continue
		}
		sig := cfg.prop + "/handler-stuck"
		if cfg.prop == "C08" {
			sig = "C08/handler-stuck-behind-other-connection"
		}
		e.Fail(sig, "the handler for c%d message %d is still running although nothing holds it on its own connection (its transport is not stalled, the engine has not parked it); %d other handler(s) are blocked elsewhere", inv.conn, inv.seq, len(w.invs))
		return false
	}
	var unhandled []*sentMsg
	for _, pc := range w.conns {
		if !pc.connected {
			continue
		}
		if !pc.dialled && w.lis.Pending() > 0 {
			continue // not accepted yet (back-off)
		}
		if len(w.yielded) > 0 {
			continue // a serve loop is held by the engine itself
		}
		// walk the messages fully delivered
		for k, sm := range pc.msgs {
			if sm.start+len(sm.bytes) > pc.sent {
				break
			}
			if pc.wasReset && sm.start+len(sm.bytes) > pc.guaranteed && !sm.entered {
				break // a reset may discard what the library had not read yet
			}
			if sm.bad != "" {
				break // nothing after a malformed item is expected to be processed
			}
			if sm.entered {
				if !sm.exited || sm.plan.panics {
					break // handler still running (later messages must wait) or connection gone
				}
				continue
			}
			if sm.unhandledDone {
				continue
			}
			if w.expectHandler(sm) == "" {
				// no registration matches: the message is consumed without ENTER
				sm.unhandledDone = true
				unhandled = append(unhandled, sm)
				continue
			}
			if pc.faultAt >= 0 && k > pc.faultAt {
				break
			}
			sig := "C08/not-dispatched"
			if held {
				sig = "C08/blocked-by-other-connection"
			}
			if cfg.prop != "C08" {
				sig = cfg.prop + "/message-not-dispatched"
			}
			e.Fail(sig, "%s message %d is fully delivered, its predecessors have returned, but no handler was entered (another handler held: %v)", pc.name, k, held)
			return false
		}
	}
	// undecodable input: an error report must be offered when the connection is
	// closed, unless another failing connection competed for the one-slot channel
	// in the same step
	var newlyClosed []*peerConn
	for _, pc := range w.conns {
		if pc.connected && !pc.closedSeen && pc.sc.Closed() {
			pc.closedSeen = true
			newlyClosed = append(newlyClosed, pc)
		}
	}
	if len(newlyClosed) == 1 {
		pc := newlyClosed[0]
		if pc.faultAt >= 0 && pc.faultAt < len(pc.msgs) && pc.msgs[pc.faultAt].bad != "" && pc.sent >= pc.msgs[pc.faultAt].start+20 {
			found := false
			for _, r := range w.stepReports {
				if r.Conn != nil && r.Conn.RemoteAddr() == pc.sc.RemoteAddr() {
					found = true
				}
			}
			if !found {
				e.Fail("C15/no-error-report/"+pc.msgs[pc.faultAt].bad, "%s: undecodable input (%s) closed the connection but no ErrorReport was offered", pc.name, pc.msgs[pc.faultAt].bad)
				return false
			}
			e.Probe("malformed-reported")
		}
	} else if len(newlyClosed) > 1 {
		e.Probe("report-slot-contended")
	}
	if cfg.table {
		// error reports: offered for unhandled messages only
		for _, r := range w.stepReports {
			ok := false
			if r.Message != nil && len(r.Message.AVP) > 0 {
				ci, si, mk := parseMarker(r.Message.AVP[0].Data.Serialize())
				if mk && ci < len(w.conns) && si < len(w.conns[ci].msgs) && w.expectHandler(w.conns[ci].msgs[si]) == "" {
					ok = true
				}
			}
			if !ok && r.Conn != nil {
				// the report of a connection that met its planned undecodable message
				for _, pc := range w.conns {
					if pc.faultAt >= 0 && pc.faultAt < len(pc.msgs) && pc.msgs[pc.faultAt].bad != "" && pc.sent > pc.msgs[pc.faultAt].start &&
						pc.sc.RemoteAddr() != nil && r.Conn.RemoteAddr() == pc.sc.RemoteAddr() {
						ok = true
					}
				}
			}
			if !ok {
				e.Fail("C09/spurious-error-report", "an ErrorReport was offered for a message that has a handler: %v", r.Error)
				return false
			}
		}
		if len(unhandled) > 0 && len(w.stepReports) == 0 {
			e.Fail("C09/no-error-report", "%d message(s) with no matching registration were consumed and no ErrorReport was offered", len(unhandled))
			return false
		}
		if len(unhandled) > 0 {
			e.Probe("unhandled-message")
		}
	}
	return w.checkHistory(false)
}

func (w *srvWorld) expectHandler(sm *sentMsg) string {
	if !w.cfg.table && !w.cfg.idxRegs {
		return w.regs.all
	}
	return w.regs.sel(sm.ref.App, sm.ref.Cmd, sm.ref.Flags&0x80 != 0)
}

// checkHistory evaluates the ENTER/EXIT history (called with w.mu held).
func (w *srvWorld) checkHistory(final bool) bool {
	e, cfg := w.e, w.cfg
	if w.trailingHandled > 0 {
		e.Fail("C15/processed-after-undecodable", "data following an undecodable message on the same connection was dispatched to a handler (%d times)", w.trailingHandled)
		return false
	}
	if w.unknownEnter > 0 {
		e.Fail(cfg.prop+"/unknown-message-handled", "a handler was entered for a message the peer never sent (%d times)", w.unknownEnter)
		return false
	}
	perConn := map[int][]*invocation{}
	for _, inv := range w.invs {
		if inv.seq >= 1000 {
			continue
		}
		perConn[inv.conn] = append(perConn[inv.conn], inv)
	}
	for ci, pc := range w.conns {
		invs := perConn[ci]
		next := 0
		var prev *invocation
		for _, inv := range invs {
			// order: the k-th ENTER on a connection is for the k-th handled message
			for next < len(pc.msgs) && (pc.msgs[next].bad != "" || pc.msgs[next].unhandledDone) {
				next++
			}
			if inv.seq != next {
				if inv.seq < next {
					e.Fail("C08/duplicate-or-reordered", "%s: handler entered for message %d after message %d", pc.name, inv.seq, next-1)
				} else {
					e.Fail("C08/skipped-or-reordered", "%s: handler entered for message %d, expected message %d first", pc.name, inv.seq, next)
				}
				return false
			}
			next++
			if prev != nil {
				if prev.active || prev.exit > inv.enter {
					e.Fail("C08/overlap", "%s: handler for message %d entered (seq %d) before the handler for message %d returned", pc.name, inv.seq, inv.enter, prev.seq)
					return false
				}
			}
			prev = inv
			if cfg.table {
				want := w.expectHandlerAt(pc.msgs[inv.seq], inv.regVer)
				if inv.hname != want {
					e.Fail("C09/wrong-handler", "%s message %d (app %d cmd %d req %v): handler %s ran, reference selects %s", pc.name, inv.seq,
						pc.msgs[inv.seq].ref.App, pc.msgs[inv.seq].ref.Cmd, pc.msgs[inv.seq].ref.Flags&0x80 != 0, inv.hname, want)
					return false
				}
			}
		}
	}
	return true
}

func (w *srvWorld) expectHandlerAt(sm *sentMsg, ver int) string {
	// The engine changes the table only when no handler is active and the system
	// is quiescent, so every invocation observed the table current at that time;
	// invocations record the version and the world keeps past tables.
	if !w.cfg.table && !w.cfg.idxRegs {
		return w.regs.all
	}
	if r, ok := w.regHist[ver]; ok && ver != w.regVer {
		return r.sel(sm.ref.App, sm.ref.Cmd, sm.ref.Flags&0x80 != 0)
	}
	return w.regs.sel(sm.ref.App, sm.ref.Cmd, sm.ref.Flags&0x80 != 0)
}

// drain: faults stop, everything parked is released, everything planned is
// delivered, then the history oracles run.
func (w *srvWorld) drain() {
	e := w.e
	w.yieldsOff.Store(true)
	for round := 0; round < 64; round++ {
		progress := false
		for _, pc := range w.conns {
			if pc.late {
				continue
			}
			if !pc.connected {
				w.connect(pc)
				progress = true
			}
			if pc.sent < pc.limit() {
				pc.sc.Deliver(pc.stream[pc.sent:pc.limit()])
				pc.sent = pc.limit()
				progress = true
			} else if pc.end == "rst-mid" && !pc.ended {
				pc.guaranteed = pc.sent - pc.sc.Unread()
				pc.wasReset = true
				pc.sc.EndRead(errSimReset, true)
				pc.ended = true
				e.Fault("rst-mid-message")
				progress = true
			}
		}
		for _, pc := range w.conns {
			if pc.connected && pc.sc.Stalled() {
				pc.sc.Resume()
				progress = true
			}
		}
		if durable := e.Quiesce(); durable && w.lis.Pending() > 0 {
			e.Advance(2 * time.Second)
			e.Quiesce() // Advance returns at the first library activity; let it finish
			progress = true
		}
		w.mu.Lock()
		parked := w.sortedParkedLocked()
		yl := append([]*yieldPark{}, w.yielded...)
		nDef := len(w.deferred)
		w.mu.Unlock()
		if nDef > 0 {
			if !w.flushDeferred(nDef) {
				return
			}
			progress = true
		}
		for _, inv := range parked {
			w.release(inv)
			progress = true
		}
		for _, yp := range yl {
			w.unyield(yp)
			progress = true
		}
		if !w.quiesceAndCheck() {
			return
		}
		if !progress {
			break
		}
	}
	// connections opened after all faults must be served (C15)
	for _, pc := range w.conns {
		if !pc.late || e.Failed() {
			continue
		}
		w.connect(pc)
		pc.sc.Deliver(pc.stream)
		pc.sent = len(pc.stream)
		for r := 0; r < 12; r++ {
			if e.Quiesce() && w.lis.Pending() > 0 {
				e.Advance(2 * time.Second)
				e.Quiesce()
			}
			for _, x := range w.conns {
				if x.connected && x.sc.Stalled() {
					x.sc.Resume()
				}
			}
			w.mu.Lock()
			parked := w.sortedParkedLocked()
			nDef := len(w.deferred)
			w.mu.Unlock()
			if nDef > 0 && !w.flushDeferred(nDef) {
				return
			}
			for _, inv := range parked {
				w.release(inv)
			}
			if !w.quiesceAndCheck() {
				return
			}
		}
		e.Probe("late-connection")
	}
	w.finalChecks()
}

func (w *srvWorld) teardown() {
	e := w.e
	w.yieldsOff.Store(true)
	w.closing.Store(true)
	for _, pc := range w.conns {
		if pc.connected {
			pc.sc.Resume()
			pc.sc.EndRead(io.EOF, false)
		}
	}
	w.lis.Close()
	for round := 0; round < 20; round++ {
		w.mu.Lock()
		yl := append([]*yieldPark{}, w.yielded...)
		w.yielded = nil
		parked := w.sortedParkedLocked()
		w.parked = nil
		w.mu.Unlock()
		for _, yp := range yl {
			e.ParkEnd(true)
			close(yp.ch)
		}
		for _, inv := range parked {
			e.ParkEnd(true)
			inv.rel <- "go"
		}
		e.Quiesce()
		if len(yl) == 0 && len(parked) == 0 {
			break
		}
	}
	if !e.Failed() {
		for _, pc := range w.conns {
			// the TLS peer has hung up in the middle of its handshake: that connection is over
			if pc.tls && pc.connected && !pc.sc.Closed() {
				e.Fail("C15/faulty-connection-not-closed/tls-handshake-failed", "%s: the peer disconnected during the TLS handshake and the server did not close the transport", pc.name)
				break
			}
		}
	}
}

// finalChecks: exactly-once handling, answers, isolation, mirroring.
func (w *srvWorld) finalChecks() {
	e, cfg := w.e, w.cfg
	w.mu.Lock()
	defer w.mu.Unlock()
	if e.Failed() {
		return
	}
	if !w.checkHistory(true) {
		return
	}
	// Serve must still be running
	select {
	case err := <-w.serveRet:
		e.Fail(cfg.prop+"/serve-returned", "Server.Serve returned %v while the listener was open", err)
		return
	default:
	}
	for _, pc := range w.conns {
		if !pc.connected {
			continue
		}
		// every message before the first fault was handled exactly once (ENTER checked in order above)
		handled := 0
		for k, sm := range pc.msgs {
			if sm.bad != "" {
				break
			}
			if pc.end == "rst-mid" && sm.start+len(sm.bytes) > pc.endAt {
				break
			}
			if pc.wasReset && sm.start+len(sm.bytes) > pc.guaranteed && !sm.entered {
				break
			}
			if !sm.unhandledDone && !sm.entered {
				e.Fail(cfg.prop+"/message-lost", "%s message %d was sent and never handled", pc.name, k)
				return
			}
			handled++
			if sm.plan.panics {
				break
			}
		}
		_ = handled
		// answers
		want := []*sentMsg{}
		for _, sm := range pc.msgs {
			if sm.bad != "" {
				break
			}
			if pc.end == "rst-mid" && sm.start+len(sm.bytes) > pc.endAt {
				break
			}
			if sm.plan.answer && sm.entered {
				want = append(want, sm)
			}
			if sm.plan.panics {
				break
			}
		}
		// pair answers with requests through the echoed marker (deferred answers leave out of order)
		byMarker := map[string]*sentMsg{}
		for _, sm := range want {
			byMarker[string(sm.ref.AVPs[0].Data)] = sm
		}
		answered := map[*sentMsg]bool{}
		for i, a := range pc.answers {
			mk := a.find(avpSimOctets)
			var req *sentMsg
			if mk != nil {
				req = byMarker[string(mk.Data)]
			}
			if req == nil {
				// no request carries this marker: pair by position so that the header diff names what is wrong
				if i < len(want) {
					req = want[i]
				} else {
					e.Fail(cfg.prop+"/answer-count", "%s: answer %d matches no answered request", pc.name, i)
					return
				}
			}
			if answered[req] {
				e.Fail(cfg.prop+"/answer-count", "%s: a request was answered twice", pc.name)
				return
			}
			answered[req] = true
			if d := mirrorDiff(req, a); d != "" {
				e.Fail(cfg.prop+"/answer-mismatch/"+d[:strings.IndexByte(d, ':')], "%s answer %d: %s", pc.name, i, d)
				return
			}
		}
		for _, sm := range want {
			if !answered[sm] && !(sm.plan.later && pc.sc.Closed()) {
				e.Fail(cfg.prop+"/answer-count", "%s: %d answers reached the peer, %d requests were answered by handlers (faulty=%v)", pc.name, len(pc.answers), len(want), pc.faulty)
				return
			}
		}
		if pc.faulty {
			// the faulty transport must have been closed by the library
			mustClose := false
			why := ""
			switch {
			case pc.end == "rst-mid":
				mustClose, why = true, "reset mid-message"
			case pc.faultAt >= 0 && pc.faultAt < len(pc.msgs) && pc.msgs[pc.faultAt].plan.panics && pc.msgs[pc.faultAt].entered:
				mustClose, why = true, "handler panic"
			case pc.faultAt >= 0 && pc.faultAt < len(pc.msgs) && pc.msgs[pc.faultAt].bad != "":
				mustClose, why = true, "malformed message "+pc.msgs[pc.faultAt].bad
			}
			if mustClose && !pc.sc.Closed() {
				e.Fail("C15/faulty-connection-not-closed", "%s: %s but the transport was not closed", pc.name, why)
				return
			}
		} else if pc.sc.Closed() {
			e.Fail("C15/healthy-connection-closed", "%s had no fault but its transport was closed", pc.name)
			return
		}
	}
	if strings.Contains(e.LogText(), "panic serving") {
		e.Probe("recovered-panic-logged")
	}
}

func (w *srvWorld) malformedConns() int {
	n := 0
	for _, pc := range w.conns {
		if pc.faultAt >= 0 && pc.faultAt < len(pc.msgs) && pc.msgs[pc.faultAt].bad != "" {
			n++
		}
	}
	return n
}

// mirrorDiff compares an answer with the request it answers (C16).
func mirrorDiff(req *sentMsg, a RefMsg) string {
	r := req.ref
	if a.Cmd != r.Cmd {
		return fmt.Sprintf("command: answer %d, request %d", a.Cmd, r.Cmd)
	}
	if a.App != r.App {
		return fmt.Sprintf("application: answer %d, request %d", a.App, r.App)
	}
	if a.HbH != r.HbH {
		return fmt.Sprintf("hop-by-hop: answer %#x, request %#x", a.HbH, r.HbH)
	}
	if a.E2E != r.E2E {
		return fmt.Sprintf("end-to-end: answer %#x, request %#x", a.E2E, r.E2E)
	}
	if a.Flags&0x80 != 0 {
		return fmt.Sprintf("rbit: answer flags %#x still have the request bit", a.Flags)
	}
	if a.Flags&0x40 != r.Flags&0x40 {
		return fmt.Sprintf("pbit: answer flags %#x, request flags %#x", a.Flags, r.Flags)
	}
	rcs := a.findAll(avpResultCode)
	if req.plan.rc == 0 {
		if len(rcs) != 0 {
			return "result-code: present although none was asked for"
		}
	} else {
		if len(rcs) != 1 || len(rcs[0].Data) != 4 || uint32(rcs[0].Data[0])<<24|uint32(rcs[0].Data[1])<<16|uint32(rcs[0].Data[2])<<8|uint32(rcs[0].Data[3]) != req.plan.rc {
			return fmt.Sprintf("result-code: want one Result-Code %d, answer has %d such AVPs", req.plan.rc, len(rcs))
		}
	}
	mk := a.find(avpSimOctets)
	if len(req.ref.AVPs) == 0 {
		return "" // a header-only request: its answer was labelled from the hop-by-hop id, compared above
	}
	if mk == nil || string(mk.Data) != string(req.ref.AVPs[0].Data) {
		return "pairing: the answer does not echo the marker of the request it was paired with"
	}
	return ""
}

// ---------------------------------------------------------------- C09 table

func (r refRegs) clone() refRegs {
	c := refRegs{idx: map[[3]uint32]string{}, name: map[string]string{}, all: r.all}
	for _, k := range r.idxKeys() {
		c.idx[k] = r.idx[k]
	}
	for _, k := range sortedStrKeys(r.name) {
		c.name[k] = r.name[k]
	}
	return c
}

func (r refRegs) idxKeys() [][3]uint32 {
	ks := make([][3]uint32, 0, len(r.idx))
	for k := range r.idx {
		ks = append(ks, k)
	}
	// order does not matter for cloning; sorted for determinism of any later use
	for i := 1; i < len(ks); i++ {
		for j := i; j > 0 && lessKey(ks[j], ks[j-1]); j-- {
			ks[j], ks[j-1] = ks[j-1], ks[j]
		}
	}
	return ks
}

func lessKey(a, b [3]uint32) bool {
	for i := 0; i < 3; i++ {
		if a[i] != b[i] {
			return a[i] < b[i]
		}
	}
	return false
}

func sortedStrKeys(m map[string]string) []string {
	ks := make([]string, 0, len(m))
	for k := range m {
		ks = append(ks, k)
	}
	for i := 1; i < len(ks); i++ {
		for j := i; j > 0 && ks[j] < ks[j-1]; j-- {
			ks[j], ks[j-1] = ks[j-1], ks[j]
		}
	}
	return ks
}

var c09IdxCands = [][2]uint32{{0, 900}, {0, 901}, {0, 280}, {1001, 900}, {1001, 910}, {1002, 910}, {1001, 901}, {1002, 900}, {4242, 900}, {0, 910}, {0xffffffff, 900}, {0xffffffff, 901}, {1002, 8388700}, {1003, 8388700}, {1002, 8388701}, {4, 920}, {16777251, 921}, {16777251, 920}, {4, 900}, {1, 922}}
var c09Names = []string{"XA", "XB", "DW", "YA", "YC", "ZC", "CE", "ZV", "PA", "SA", "NA"}

func (w *srvWorld) snapshot() {
	if w.regHist == nil {
		w.regHist = map[int]refRegs{}
	}
	w.regHist[w.regVer] = w.regs.clone()
}

func (w *srvWorld) drawTable() {
	t := w.e.T
	for _, c := range c09IdxCands {
		for _, req := range []bool{true, false} {
			if t.Chance(1, 5) {
				w.register("idx", c[0], c[1], req, "")
			}
		}
	}
	for _, n := range c09Names {
		for _, sfx := range []string{"R", "A"} {
			if t.Chance(1, 3) {
				w.register("name", 0, 0, false, n+sfx)
			}
		}
	}
	switch t.Pick(2, 2, 1) {
	case 1:
		w.register("all", 0, 0, false, "")
	case 2:
		w.register("allidx", 0, 0, false, "")
	}
	w.snapshot()
}

// forceTable makes the registrations selected by f.mask among those that could compete for
// the message (f.app, f.code, f.req): its own index, the index with the other R bit, of a
// neighbouring application, of a neighbouring code; its short name with the right and the
// wrong suffix, another command's short name; and the catch-all by name or by index.
func (w *srvWorld) forceTable(f *tableForce) {
	otherApp := uint32(0)
	if f.app == 0 {
		otherApp = 1001
	}
	otherCode := uint32(901)
	if f.code == 901 {
		otherCode = 900
	}
	short := simShort(f.app, f.code)
	sfx, wrong := "A", "R"
	if f.req {
		sfx, wrong = "R", "A"
	}
	otherShort := "XB"
	if short == "XB" {
		otherShort = "XA"
	}
	regs := []func(){
		func() { w.register("idx", f.app, f.code, f.req, "") },
		func() { w.register("idx", f.app, f.code, !f.req, "") },
		func() { w.register("idx", otherApp, f.code, f.req, "") },
		func() { w.register("idx", f.app, otherCode, f.req, "") },
		func() { w.register("name", 0, 0, false, short+sfx) },
		func() { w.register("name", 0, 0, false, short+wrong) },
		func() { w.register("name", 0, 0, false, otherShort+sfx) },
	}
	for i, r := range regs {
		if f.mask&(1<<i) != 0 {
			r()
		}
	}
	switch f.all {
	case 1:
		w.register("all", 0, 0, false, "")
	case 2:
		w.register("allidx", 0, 0, false, "")
	}
	w.snapshot()
}

// reRegister replaces (or adds) one registration; only called when no handler is active.
func (w *srvWorld) reRegister() {
	t := w.e.T
	w.mu.Lock()
	defer w.mu.Unlock()
	w.snapshot()
	switch t.Pick(3, 3, 2) {
	case 0:
		c := c09IdxCands[t.Draw(len(c09IdxCands))]
		w.register("idx", c[0], c[1], t.Chance(1, 2), "")
	case 1:
		w.register("name", 0, 0, false, c09Names[t.Draw(len(c09Names))]+[]string{"R", "A"}[t.Draw(2)])
	default:
		if t.Chance(1, 2) {
			w.register("all", 0, 0, false, "")
		} else {
			w.register("allidx", 0, 0, false, "")
		}
	}
	w.snapshot()
	w.e.Probe("re-registration")
}

// ---------------------------------------------------------------- yield points

// installYields parks serve goroutines at the tagged scheduling points. The
// decision to park is a function of per-site counters fixed at setup (drawn on
// the engine goroutine), never a draw on a library goroutine.
func (w *srvWorld) installYields() {
	t := w.e.T
	sites := []string{"serve.read.ok", "serve.handler.done", "sr.read.enter", "sr.read.unlocked"}
	every := map[string]int{}
	for _, s := range sites {
		if t.Chance(1, 3) {
			every[s] = t.Range(1, 4)
			if strings.HasPrefix(s, "sr.") {
				every[s] = t.Range(2, 12)
			}
		}
	}
	count := map[string]int{}
	diam.VerifYield = func(site string) {
		n, ok := every[site]
		if !ok {
			return
		}
		w.mu.Lock()
		count[site]++
		park := count[site]%n == 0 && !w.yieldsOff.Load()
		var yp *yieldPark
		if park {
			yp = &yieldPark{site: site, ch: make(chan struct{})}
			w.yielded = append(w.yielded, yp)
			w.e.ParkBegin(true)
		}
		w.mu.Unlock()
		if park {
			w.e.Probe("yield-parked")
			<-yp.ch
		}
	}
}

func (w *srvWorld) unyield(yp *yieldPark) {
	w.mu.Lock()
	for i, y := range w.yielded {
		if y == yp {
			w.yielded = append(w.yielded[:i], w.yielded[i+1:]...)
			break
		}
	}
	w.mu.Unlock()
	w.e.Act("unyield", "%s", yp.site)
	w.e.ParkEnd(true)
	close(yp.ch)
}

// flushDeferred builds and writes up to n answers that handlers left for later.
func (w *srvWorld) flushDeferred(n int) bool {
	for i := 0; i < n; i++ {
		w.mu.Lock()
		if len(w.deferred) == 0 {
			w.mu.Unlock()
			return true
		}
		inv := w.deferred[0]
		w.deferred = w.deferred[1:]
		var pl plan
		if inv.conn >= 0 && inv.conn < len(w.conns) && inv.seq >= 0 && inv.seq < len(w.conns[inv.conn].msgs) {
			pl = w.conns[inv.conn].msgs[inv.seq].plan
		}
		w.mu.Unlock()
		w.e.Act("deferred-answer", "c%d/m%d", inv.conn, inv.seq)
		w.e.Probe("deferred-answer")
		ok := w.regTask(func() {
			a := inv.m.Answer(pl.rc)
			if len(inv.m.AVP) > 0 {
				a.NewAVP(avpSimOctets, 0, 0, datatype.OctetString(inv.m.AVP[0].Data.Serialize()))
			}
			_, inv.writeErr = a.WriteTo(inv.c)
		})
		if !ok {
			return false
		}
	}
	return true
}

// regTask performs a registration on its own goroutine (it takes the mux write
// lock, which a misbehaving library may never grant) and requires it to finish
// by the next quiescent point.
func (w *srvWorld) regTask(f func()) bool {
	done := make(chan struct{})
	w.e.forceDump = true
	go func() { f(); close(done) }()
	w.e.Quiesce()
	select {
	case <-done:
		w.e.forceDump = false
		return true
	default:
		w.e.Fail(w.cfg.prop+"/call-blocked", "a call made from another goroutine (handler registration or CloseNotify) while no handler was running did not return (a library lock is held)")
		return false
	}
}

// simSliceErr is an error whose dynamic type is not comparable.
type simSliceErr []string

func (e simSliceErr) Error() string { return strings.Join(e, ": ") }
