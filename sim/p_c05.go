package dsim

import (
	"bytes"
	"errors"
	"fmt"
	"io"
	"runtime"
	"sync"
	"time"

	"github.com/fiorix/go-diameter/v4/diam"
)

// C05 — message boundaries in a byte stream follow the declared message length.

func init() {
	register(&Property{
		ID:    "C05",
		Level: "exploration",
		Rule: "each run draws 1-8 valid messages (body sizes around 0, the 1 KiB pooled buffer, the 4 KiB bufio buffer, 64 KiB, rarely MiBs), an end condition " +
			"(clean, truncation offset, read error offset, header declaring length 0..19 followed by valid messages) and a fragmentation of the bytes into reads; " +
			"a run is non-trivial when the stream has at least two reads that split a message or a fault (truncation, error, bad length) fired; distinct = distinct hash of (scenario, message-size classes, end kind, fragmentation class sequence)",
		Real: []string{"diam.ReadMessage, readHeader, readBody, readerBufferSlice, readerBufferPool", "diam.NewConn -> conn.serve, bufio.Reader, liveSwitchReader, ServeMux (scenario conn)"},
		Stubbed: []string{"byte source: SimReader / SimConn (in-memory, fragmentation and end condition decided by the tape)", "peer: scripted, reference encoder/framer"},
		Assume: []string{"messages are restricted to shapes the harness's own encoder produces (OctetString / Unsigned32 / undefined-code AVPs) over the harness-authored dictionary",
			"the reference framer (20-byte header, 24-bit declared length) is the specification of a boundary"},
		Scenarios: []*Scenario{
			{Name: "stream", Weight: 8, Run: c05Stream},
			{Name: "conn", Weight: 3, Bubble: true, Run: c05Conn},
			{Name: "multi-conn", Weight: 2, Bubble: true, Run: c05Multi},
			{Name: "conn-timeout", Weight: 1, Bubble: true, Run: c05Timeout},
			{Name: "conn-sequence", Weight: 1, Bubble: true, Run: c05Sequence},
			{Name: "sweep-splits", Run: c05Sweep, SweepN: c05SweepN, QuickSweep: true, Exhaustive: true,
				SweepNote: "5 fixed short streams (<=512 B): every single split point, the all-1-byte fragmentation, every truncation offset (EOF and read error), and a header declaring each length 0..19 at each message position"},
		},
		MustProbes: []string{"pooled-body", "fresh-body", "split-in-header", "split-in-body", "badlen", "trunc-in-header", "trunc-in-body", "trunc-after-header", "conn-bufio-multi", "multi-conn-interleaved", "read-deadline-passed", "sequential-connections", "close-notify-during-reads", "last-bytes-with-eof"},
	})
}

type c05Msg struct {
	ref   RefMsg
	bytes []byte
}

// genMsg builds a valid message over the sim dictionary with a body of about the requested size.
func genC05Msg(t *Tape, k int, body int) c05Msg {
	cmd := simCmds[t.Draw(len(simCmds))]
	m := RefMsg{Cmd: cmd.Code, App: cmd.App, HbH: uint32(1000 + k), E2E: uint32(t.Draw(1 << 30))}
	if t.Chance(1, 2) {
		m.Flags = 0x80
	}
	if t.Chance(1, 3) {
		m.Flags |= 0x40
	}
	body -= body % 4
	rem := body
	first := true
	for rem >= 8 {
		// choose an AVP shape that fits
		var a RefAVP
		shape := t.Pick(5, 2, 2, 1)
		if first {
			shape = 0
		}
		switch {
		case shape == 1 && rem >= 12:
			a = RefAVP{Code: avpSimU32, Data: u32(uint32(t.Draw(1 << 30)))}
		case shape == 2 && rem >= 12:
			n := t.Range(0, min(rem-8, 40))
			a = RefAVP{Code: uint32(70000 + t.Draw(5)), Data: t.Bytes(n)} // undefined code
		case shape == 3 && rem >= 16:
			n := t.Range(0, min(rem-12, 24))
			a = RefAVP{Code: avpSimVendor, Flags: 0x80, Vendor: 9999, Data: t.Bytes(n)}
		default:
			// Sim-Octets taking either all that is left or a drawn part of it
			n := rem - 8
			if !first && t.Chance(1, 2) {
				n = t.Range(0, rem-8)
			}
			if first && rem > 64 && t.Chance(1, 3) {
				n = t.Range(16, rem-8)
			}
			if t.Chance(1, 3) && n > 3 {
				n -= t.Draw(4) // odd lengths exercise padding
			}
			a = RefAVP{Code: avpSimOctets, Data: marker(0, k, n, byte(k))}
			if n < 8 {
				a.Data = t.Bytes(n)
			}
		}
		ab := a.Bytes()
		if len(ab) > rem {
			break
		}
		m.AVPs = append(m.AVPs, a)
		rem -= len(ab)
		first = false
	}
	if n := len(m.AVPs); n > 0 && len(m.AVPs[n-1].Data)%4 != 0 && m.AVPs[n-1].Group == nil && t.Chance(1, 4) {
		// the last AVP comes without its padding and the message declares the unpadded
		// length (not a multiple of four): accepted on input, and exactly that many bytes are its
		m.TrimPad = true
	}
	return c05Msg{ref: m, bytes: m.Bytes()}
}

var c05BodySizes = []int{0, 8, 16, 40, 200, 1016, 1020, 1024, 1028, 1032, 2000, 4068, 4072, 4076, 4080, 4096, 8192, 65536}

func drawBodySize(t *Tape, thorough bool) int {
	w := t.Pick(6, 3, 1)
	switch w {
	case 0:
		return c05BodySizes[t.Draw(6)]
	case 1:
		return c05BodySizes[t.Draw(len(c05BodySizes))]
	default:
		if thorough && t.Chance(1, 20) {
			return (1 << 20) + 4*t.Draw(1<<18)
		}
		return 4 * t.Draw(2100)
	}
}

// c05End describes how the stream ends.
type c05End struct {
	kind   string // clean, trunc, err, badlen
	offset int    // absolute stream offset of the cut (trunc/err)
	decl   int    // declared length for badlen
}

// c05Stream: ReadMessage over a SimReader.
func c05Stream(e *Env) {
	t := e.T
	n := t.Range(1, 8)
	var msgs []c05Msg
	var stream []byte
	for k := 0; k < n; k++ {
		m := genC05Msg(t, k, drawBodySize(t, e.Thorough))
		msgs = append(msgs, m)
		stream = append(stream, m.bytes...)
	}
	end := c05End{kind: "clean"}
	switch t.Pick(5, 3, 2, 3) {
	case 1:
		end.kind = "trunc"
	case 2:
		end.kind = "err"
	case 3:
		end.kind = "badlen"
	}
	c05RunStream(e, msgs, stream, end, nil, true)
}

// c05RunStream runs the stream scenario on prepared input; frags==nil draws a fragmentation.
func c05RunStream(e *Env, msgs []c05Msg, stream []byte, end c05End, frags []int, draw bool) {
	t := e.T
	var expect []c05Msg
	var data []byte
	var endErr error = io.EOF
	wantEnd := "eof"
	badlenHdrEnd := -1
	switch end.kind {
	case "clean":
		data, expect = stream, msgs
	case "trunc", "err":
		off := end.offset
		if draw {
			// bias: inside header, right after header, inside body, on a boundary
			mi := t.Draw(len(msgs))
			startOff := 0
			for i := 0; i < mi; i++ {
				startOff += len(msgs[i].bytes)
			}
			ml := len(msgs[mi].bytes)
			switch t.Pick(2, 3, 2, 3) {
			case 0:
				off = startOff // boundary
			case 1:
				off = startOff + t.Range(1, 19)
			case 2:
				off = startOff + 20
			default:
				off = startOff + t.Range(20, ml-1)
			}
			if off > len(stream) {
				off = len(stream)
			}
		}
		data = stream[:off]
		// expected messages: whole ones before the cut
		pos := 0
		inside := false
		for _, m := range msgs {
			if pos+len(m.bytes) <= off {
				expect = append(expect, m)
				pos += len(m.bytes)
			} else {
				inside = off > pos
				if inside {
					rel := off - pos
					switch {
					case rel < 20:
						e.Probe("trunc-in-header")
					case rel == 20:
						e.Probe("trunc-after-header")
					default:
						e.Probe("trunc-in-body")
					}
				}
				break
			}
		}
		if end.kind == "err" {
			endErr = errSimReset
			wantEnd = "error"
			e.Fault("read-error")
		} else {
			e.Fault("truncation")
			if inside {
				wantEnd = "error"
			}
		}
	case "badlen":
		decl := end.decl
		pos := len(msgs)
		if draw {
			decl = t.Draw(20)
			pos = t.Draw(len(msgs) + 1)
		} else {
			pos = end.offset
		}
		for i := 0; i < pos && i < len(msgs); i++ {
			expect = append(expect, msgs[i])
			data = append(data, msgs[i].bytes...)
		}
		bad := RefMsg{Cmd: 900, Flags: 0x80, HbH: 7, E2E: 7, Override: true, DeclLen: decl}
		data = append(data, bad.Bytes()[:20]...)
		badlenHdrEnd = len(data)
		for i := pos; i < len(msgs); i++ {
			data = append(data, msgs[i].bytes...)
		}
		// some more bytes so a runaway reader has something to swallow
		data = append(data, bytes.Repeat([]byte{0xee}, 64)...)
		wantEnd = "error"
		e.Fault("bad-declared-length")
		e.Probe("badlen")
	}
	r := &SimReader{data: data, endErr: endErr}
	if frags != nil {
		r.frags = frags
	} else if draw {
		r.frags = drawFrags(e, len(data), msgs)
		r.eofWithData = t.Chance(1, 6)
	}
	if badlenHdrEnd >= 0 {
		r.mark = badlenHdrEnd
	}
	e.Act("stream", "msgs=%d bytes=%d end=%s off=%d decl=%d frags=%d", len(msgs), len(data), end.kind, end.offset, end.decl, len(r.frags))
	for _, m := range msgs {
		bl := len(m.bytes) - 20
		if bl <= 1024 {
			e.Probe("pooled-body")
		} else {
			e.Probe("fresh-body")
		}
		e.Act(sizeClass(bl), "")
	}
	e.Act("end:"+end.kind, "")

	var ms0 runtime.MemStats
	consumed := 0
	for i := 0; ; i++ {
		if badlenHdrEnd >= 0 && i == len(expect) {
			// measure only the call that meets the bad header (earlier, valid messages may be MiBs)
			runtime.ReadMemStats(&ms0)
		}
		m, err := safeReadMessage(e, r)
		if e.Failed() {
			return
		}
		if err != nil {
			if i < len(expect) {
				e.Fail("C05/missing-message/"+end.kind, "ReadMessage #%d returned %v, expected message %d of %d (stream %d bytes, end=%+v)", i, err, i, len(expect), len(data), end)
				return
			}
			switch wantEnd {
			case "eof":
				if err != io.EOF {
					e.Fail("C05/end-not-eof/"+end.kind, "stream ended on a boundary but ReadMessage returned %v, want io.EOF", err)
				}
			case "error":
				if err == io.EOF {
					e.Fail("C05/end-reported-as-eof/"+end.kind, "stream ended inside a message / on an error (end=%+v) but ReadMessage returned bare io.EOF", end)
				}
			}
			break
		}
		if i >= len(expect) {
			e.Fail("C05/extra-message/"+end.kind, "ReadMessage #%d returned a message, only %d expected (end=%+v)", i, len(expect), end)
			return
		}
		if d := compareMsg(m, expect[i]); d != "" {
			e.Fail("C05/wrong-message/"+end.kind, "message #%d: %s", i, d)
			return
		}
		consumed += len(expect[i].bytes)
		if r.pos != consumed {
			e.Fail("C05/consumed-mismatch", "after message #%d the reader consumed %d bytes, declared lengths sum to %d", i, r.pos, consumed)
			return
		}
	}
	if badlenHdrEnd >= 0 {
		var ms1 runtime.MemStats
		runtime.ReadMemStats(&ms1)
		if r.pos > badlenHdrEnd || r.CallsAfter > 0 {
			e.Fail("C05/short-declared-length/read-on", "declared length %d: reader consumed %d bytes past the header (%d further Read calls)", end.decl, r.pos-badlenHdrEnd, r.CallsAfter)
			return
		}
		if grown := ms1.TotalAlloc - ms0.TotalAlloc; ms0.TotalAlloc > 0 && grown > 1<<20 {
			e.Fail("C05/short-declared-length/alloc", "declared length %d: %d bytes allocated while rejecting", end.decl, grown)
		}
	}
}

func sizeClass(body int) string {
	switch {
	case body == 0:
		return "b0"
	case body < 1024:
		return "b<1K"
	case body == 1024:
		return "b=1K"
	case body <= 4076:
		return "b<4K"
	case body <= 4096:
		return "b~4K"
	case body <= 65536:
		return "b<=64K"
	default:
		return "b>64K"
	}
}

// drawFrags draws a fragmentation of n bytes into read results.
func drawFrags(e *Env, n int, msgs []c05Msg) []int {
	t := e.T
	var frags []int
	mode := t.Pick(2, 3, 2, 3, 2)
	pos := 0
	emit := func(k int) {
		if k <= 0 {
			return
		}
		frags = append(frags, k)
		pos += k
	}
	switch mode {
	case 0: // everything at once
		e.Act("frag:whole", "")
		return nil
	case 1: // all one-byte reads (bounded)
		e.Act("frag:1byte", "")
		lim := n
		if lim > 6000 {
			lim = 6000
		}
		for i := 0; i < lim; i++ {
			frags = append(frags, 1)
		}
		e.NonTrivial()
		e.Probe("split-in-header")
		e.Probe("split-in-body")
		return frags
	case 2: // message-aligned
		e.Act("frag:aligned", "")
		for _, m := range msgs {
			frags = append(frags, len(m.bytes))
		}
		return frags
	case 3: // random sizes with zero-length reads sprinkled in
		e.Act("frag:random", "")
		for pos < n && len(frags) < 4000 {
			switch t.Pick(4, 3, 2, 1, 1) {
			case 0:
				emit(t.Range(1, 24))
			case 1:
				emit(t.Range(1, 300))
			case 2:
				emit(t.Range(1, 5000))
			case 3:
				frags = append(frags, 0)
				e.Fault("zero-length-read")
			default:
				emit(1)
			}
		}
	default: // cuts placed around message boundaries and header ends
		e.Act("frag:edges", "")
		off := 0
		for _, m := range msgs {
			l := len(m.bytes)
			cuts := []int{}
			if t.Chance(1, 2) {
				cuts = append(cuts, t.Range(1, 19))
			}
			if t.Chance(1, 2) {
				cuts = append(cuts, 20)
			}
			if l > 21 && t.Chance(1, 2) {
				cuts = append(cuts, t.Range(21, l-1))
			}
			if t.Chance(2, 3) {
				cuts = append(cuts, l+t.Range(0, 30)) // spills into the next message
			}
			last := pos - off
			for _, c := range cuts {
				if c > last {
					emit(c - last)
					last = c
				}
			}
			off += l
		}
	}
	// classify
	off, fi := 0, 0
	cut := 0
	for _, m := range msgs {
		l := len(m.bytes)
		for fi < len(frags) && cut <= off {
			cut += frags[fi]
			fi++
		}
		for cut > off && cut < off+l {
			if cut-off < 20 {
				e.Probe("split-in-header")
			} else if cut-off > 20 {
				e.Probe("split-in-body")
			}
			e.NonTrivial()
			if fi >= len(frags) {
				break
			}
			cut += frags[fi]
			fi++
		}
		off += l
	}
	return frags
}

// safeReadMessage calls the library and turns a panic into a violation.
func safeReadMessage(e *Env, r io.Reader) (m *diam.Message, err error) {
	defer func() {
		if p := recover(); p != nil {
			e.Fail("C05/panic", "ReadMessage panicked: %v", p)
			err = errors.New("panic")
		}
	}()
	return diam.ReadMessage(r, simDict())
}

// compareMsg checks a library message against the reference it was built from.
func compareMsg(m *diam.Message, want c05Msg) string {
	h := m.Header
	w := want.ref
	if h.Version != 1 || int(h.MessageLength) != len(want.bytes) || h.CommandFlags != w.Flags || h.CommandCode != w.Cmd ||
		h.ApplicationID != w.App || h.HopByHopID != w.HbH || h.EndToEndID != w.E2E {
		return fmt.Sprintf("header %s differs from reference %s (len %d)", h, w, len(want.bytes))
	}
	if len(m.AVP) != len(w.AVPs) {
		return fmt.Sprintf("%d AVPs, reference has %d", len(m.AVP), len(w.AVPs))
	}
	for i, a := range m.AVP {
		ra := w.AVPs[i]
		if a.Code != ra.Code || a.Flags != ra.Flags || (ra.Flags&0x80 != 0 && a.VendorID != ra.Vendor) {
			return fmt.Sprintf("AVP %d: code/flags/vendor %d/%#x/%d, reference %d/%#x/%d", i, a.Code, a.Flags, a.VendorID, ra.Code, ra.Flags, ra.Vendor)
		}
		if !bytes.Equal(a.Data.Serialize(), ra.Data) {
			return fmt.Sprintf("AVP %d (code %d): payload differs from reference (%d vs %d bytes)", i, a.Code, len(a.Data.Serialize()), len(ra.Data))
		}
	}
	b, err := m.Serialize()
	if err != nil {
		return "re-serialisation failed: " + err.Error()
	}
	if w.TrimPad {
		return "" // (sent without the final padding: the re-serialised form legitimately differs)
	}
	if !bytes.Equal(b, want.bytes) {
		return "re-serialised bytes differ from the bytes sent"
	}
	return ""
}

// ---------------------------------------------------------------- sweep

var c05SweepStreams [][]c05Msg

func c05SweepInit() {
	if c05SweepStreams != nil {
		return
	}
	t := NewTape(0xC05)
	shapes := [][]int{{0}, {8, 0, 16}, {40, 40}, {0, 0, 0, 0}, {200, 12, 100}}
	for _, sh := range shapes {
		var ms []c05Msg
		for k, b := range sh {
			ms = append(ms, genC05Msg(t, k, b))
		}
		c05SweepStreams = append(c05SweepStreams, ms)
	}
}

type c05Case struct {
	stream int
	mode   string
	a, b   int
}

var c05Cases []c05Case

func c05SweepN(thorough bool) int {
	c05SweepInit()
	if c05Cases == nil {
		for si, ms := range c05SweepStreams {
			l := 0
			for _, m := range ms {
				l += len(m.bytes)
			}
			for s := 1; s < l; s++ {
				c05Cases = append(c05Cases, c05Case{si, "split", s, 0})
			}
			c05Cases = append(c05Cases, c05Case{si, "1byte", 0, 0})
			for off := 0; off <= l; off++ {
				c05Cases = append(c05Cases, c05Case{si, "trunc", off, 0})
				c05Cases = append(c05Cases, c05Case{si, "err", off, 0})
			}
			for pos := 0; pos <= len(ms); pos++ {
				for decl := 0; decl < 20; decl++ {
					c05Cases = append(c05Cases, c05Case{si, "badlen", pos, decl})
				}
			}
		}
	}
	return len(c05Cases)
}

func c05Sweep(e *Env) {
	c05SweepN(e.Thorough)
	c := c05Cases[e.Case]
	ms := c05SweepStreams[c.stream]
	var stream []byte
	for _, m := range ms {
		stream = append(stream, m.bytes...)
	}
	e.NonTrivial()
	switch c.mode {
	case "split":
		e.Act("sweep-split", "stream=%d at=%d", c.stream, c.a)
		c05RunStream(e, ms, stream, c05End{kind: "clean"}, []int{c.a, len(stream) - c.a}, false)
	case "1byte":
		fr := make([]int, len(stream))
		for i := range fr {
			fr[i] = 1
		}
		c05RunStream(e, ms, stream, c05End{kind: "clean"}, fr, false)
	case "trunc", "err":
		// deliver in two reads around the middle so truncation meets a partial read
		fr := []int{c.a / 2, c.a - c.a/2}
		if c.a < 2 {
			fr = []int{c.a}
		}
		c05RunStream(e, ms, stream, c05End{kind: c.mode, offset: c.a}, fr, false)
	case "badlen":
		c05RunStream(e, ms, stream, c05End{kind: "badlen", offset: c.a, decl: c.b}, []int{}, false)
	}
}

// ---------------------------------------------------------------- conn scenario

// c05Conn: the same streams through diam.NewConn(SimConn): bufio + serve.
func c05Conn(e *Env) {
	t := e.T
	e.maxStep = 400
	e.TrustWait = true
	n := t.Range(1, 6)
	var msgs []c05Msg
	var stream []byte
	for k := 0; k < n; k++ {
		b := drawBodySize(t, false)
		if b > 8192 {
			b = 8192
		}
		m := genC05Msg(t, k, b)
		msgs = append(msgs, m)
		stream = append(stream, m.bytes...)
	}
	endKind := []string{"clean", "rst", "badlen", "trunc"}[t.Pick(4, 2, 3, 2)]
	data := stream
	expect := msgs
	wantReport := false
	switch endKind {
	case "badlen":
		pos := t.Draw(len(msgs) + 1)
		decl := t.Draw(20)
		data = nil
		expect = msgs[:pos]
		for i := 0; i < pos; i++ {
			data = append(data, msgs[i].bytes...)
		}
		bad := RefMsg{Cmd: 900, Flags: 0x80, HbH: 7, E2E: 7, Override: true, DeclLen: decl}
		data = append(data, bad.Bytes()[:20]...)
		for i := pos; i < len(msgs); i++ {
			data = append(data, msgs[i].bytes...)
		}
		wantReport = true
		e.Fault("bad-declared-length")
		e.Probe("badlen")
	case "trunc":
		off := t.Range(0, len(stream))
		data = stream[:off]
		expect = nil
		pos := 0
		for _, m := range msgs {
			if pos+len(m.bytes) <= off {
				expect = append(expect, m)
				pos += len(m.bytes)
			} else {
				break
			}
		}
		e.Fault("truncation")
	}
	var got []*diam.Message
	mux := diam.NewServeMux()
	mux.HandleFunc("ALL", func(c diam.Conn, m *diam.Message) {
		e.mu.Lock()
		got = append(got, m)
		e.mu.Unlock()
	})
	sc := newSimConn(e, "c0", drawAddr(t, 3868), drawAddr(t, 40000))
	if t.Chance(1, 3) {
		sc.MaxRead = t.Range(1, 64)
		e.Act("maxread", "%d", sc.MaxRead)
	}
	conn, err := diam.NewConn(sc, "sim", mux, simDict())
	if err != nil {
		e.Harness("NewConn: %v", err)
	}
	_ = conn
	e.Act("conn", "msgs=%d bytes=%d end=%s", len(msgs), len(data), endKind)
	delivered := 0
	reports := 0
	drainReports := func() {
		for {
			select {
			case <-mux.ErrorReports():
				reports++
			default:
				return
			}
		}
	}
	check := func() bool {
		// messages complete within the delivered prefix must have been handled, no others
		want := 0
		b := data[:delivered]
		for {
			_, rest, st := refFrame(b)
			if st != "ok" {
				break
			}
			want++
			b = rest
		}
		if want > len(expect) {
			want = len(expect)
		}
		e.mu.Lock()
		g := len(got)
		e.mu.Unlock()
		if g != want {
			e.Fail("C05/conn-dispatch-count", "after %d of %d bytes delivered %d messages were dispatched, %d are complete (end=%s)", delivered, len(data), g, want, endKind)
			return false
		}
		return true
	}
	// somebody may ask for CloseNotify along the way (reads then go through the library's
	// copier and pipe), and the last bytes may come in the same Read as the end of the stream
	cnAt := -1
	if t.Chance(1, 3) {
		cnAt = t.Draw(len(data) + 1)
	}
	endWithData := endKind != "rst" && t.Chance(1, 4)
	askCN := func() {
		if cn, ok := conn.(diam.CloseNotifier); ok {
			done := make(chan struct{})
			go func() { cn.CloseNotify(); close(done) }()
			e.Quiesce()
			select {
			case <-done:
			default:
				e.Fail("C05/close-notify-blocked", "CloseNotify did not return")
			}
			e.Act("close-notify", "at %d", delivered)
			e.Probe("close-notify-during-reads")
		}
		cnAt = -1
	}
	for delivered < len(data) && e.Step() {
		if cnAt >= 0 && delivered >= cnAt {
			askCN()
			if e.Failed() {
				return
			}
		}
		var k int
		switch t.Pick(2, 3, 3, 2) {
		case 0:
			k = len(data) - delivered
		case 1:
			k = t.Range(1, 30)
		case 2:
			k = t.Range(1, 1500)
		default:
			k = t.Range(1, 9000)
		}
		if k > len(data)-delivered {
			k = len(data) - delivered
		}
		if k > 4096 || (k == len(data)-delivered && len(msgs) > 1 && k > len(msgs[len(msgs)-1].bytes)) {
			e.Probe("conn-bufio-multi")
		}
		if endWithData && delivered+k == len(data) {
			break // the last fragment arrives together with the end of the stream (below)
		}
		sc.Deliver(data[delivered : delivered+k])
		delivered += k
		e.Act("deliver", "%d", k)
		e.NonTrivial()
		e.Quiesce()
		drainReports()
		if !check() {
			return
		}
	}
	if endWithData && delivered < len(data) && !e.Failed() {
		sc.Deliver(data[delivered:])
		delivered = len(data)
		sc.EndReadWithData(io.EOF)
		e.Act("deliver-with-eof", "")
		e.Probe("last-bytes-with-eof")
		e.Quiesce()
	}
	if delivered < len(data) {
		sc.Deliver(data[delivered:])
		delivered = len(data)
		e.Quiesce()
	}
	switch endKind {
	case "rst":
		sc.EndRead(errSimReset, false)
		e.Fault("read-error")
		wantReport = true
	default:
		sc.EndRead(io.EOF, false)
	}
	e.Quiesce()
	drainReports()
	if !check() {
		return
	}
	e.mu.Lock()
	g := append([]*diam.Message{}, got...)
	e.mu.Unlock()
	for i, m := range g {
		if d := compareMsg(m, expect[i]); d != "" {
			e.Fail("C05/conn-wrong-message/"+endKind, "message #%d: %s", i, d)
			return
		}
	}
	if !sc.Closed() {
		e.Fail("C05/conn-not-closed/"+endKind, "stream ended (%s) but the library did not close the transport", endKind)
		return
	}
	// (whether an ErrorReport is offered belongs to C15, not to this property)
	_ = wantReport
}

// ---------------------------------------------------------------- several connections at once

// c05Multi: 2-3 connections read concurrently (they share the buffer pools);
// fragments of their streams are interleaved by the engine.
func c05Multi(e *Env) {
	t := e.T
	e.maxStep = 300
	e.TrustWait = true
	type cst struct {
		name      string
		sc        *SimConn
		msgs      []c05Msg
		data      []byte
		delivered int
		got       []*diam.Message
	}
	nc := t.Range(2, 3)
	var cs []*cst
	for i := 0; i < nc; i++ {
		c := &cst{name: fmt.Sprintf("c%d", i)}
		c.sc = newSimConn(e, c.name, drawAddr(t, 3868), drawAddr(t, 40000+i))
		n := t.Range(1, 5)
		for k := 0; k < n; k++ {
			b := drawBodySize(t, false)
			if b > 8192 {
				b = 8192
			}
			m := genC05Msg(t, 10*i+k, b)
			c.msgs = append(c.msgs, m)
			c.data = append(c.data, m.bytes...)
		}
		mux := diam.NewServeMux()
		cc := c
		mux.HandleFunc("ALL", func(_ diam.Conn, m *diam.Message) {
			e.mu.Lock()
			cc.got = append(cc.got, m)
			e.mu.Unlock()
		})
		if _, err := diam.NewConn(c.sc, "sim", mux, simDict()); err != nil {
			e.Harness("NewConn: %v", err)
		}
		cs = append(cs, c)
	}
	e.Act("multi", "conns=%d", nc)
	check := func(c *cst) bool {
		want := 0
		b := c.data[:c.delivered]
		for {
			_, rest, st := refFrame(b)
			if st != "ok" {
				break
			}
			want++
			b = rest
		}
		e.mu.Lock()
		g := append([]*diam.Message{}, c.got...)
		e.mu.Unlock()
		if len(g) != want {
			e.Fail("C05/conn-dispatch-count/multi", "%s: after %d of %d bytes %d messages were dispatched, %d are complete (other connections are reading concurrently)", c.name, c.delivered, len(c.data), len(g), want)
			return false
		}
		for i, m := range g {
			if d := compareMsg(m, c.msgs[i]); d != "" {
				e.Fail("C05/conn-wrong-message/multi", "%s message #%d: %s (bytes of another connection's message?)", c.name, i, d)
				return false
			}
		}
		return true
	}
	for e.Step() {
		var live []*cst
		for _, c := range cs {
			if c.delivered < len(c.data) {
				live = append(live, c)
			}
		}
		if len(live) == 0 {
			break
		}
		c := live[t.Draw(len(live))]
		rem := len(c.data) - c.delivered
		var k int
		switch t.Pick(2, 3, 3, 2) {
		case 0:
			k = rem
		case 1:
			k = t.Range(1, 40)
		case 2:
			k = t.Range(1, 1200)
		default:
			// stop right after a header, the place where a reader holds a pooled buffer and waits
			k = rem
			off := 0
			for _, m := range c.msgs {
				if off+20 > c.delivered {
					k = off + 20 - c.delivered
					break
				}
				off += len(m.bytes)
			}
		}
		if k > rem {
			k = rem
		}
		if k <= 0 {
			k = 1
		}
		c.sc.Deliver(c.data[c.delivered : c.delivered+k])
		c.delivered += k
		e.Act("deliver", "%s %d", c.name, k)
		e.NonTrivial()
		e.Quiesce()
		for _, x := range cs {
			if !check(x) {
				goto out
			}
		}
	}
out:
	for _, c := range cs {
		c.sc.EndRead(io.EOF, false)
	}
	e.Quiesce()
	if !e.Failed() {
		e.Probe("multi-conn-interleaved")
	}
}

// ---------------------------------------------------------------- read deadlines

// c05Timeout: a served connection with Server.ReadTimeout; the peer stalls between
// fragments. A read that times out ends the connection; it never resumes in the
// middle of a message.
func c05Timeout(e *Env) {
	t := e.T
	e.maxStep = 200
	e.TrustWait = true
	T := []time.Duration{time.Second, 50 * time.Millisecond, 5 * time.Second}[t.Draw(3)]
	sc := newSimConn(e, "c0", drawAddr(t, 3868), drawAddr(t, 40000))
	lis := newSimListener(e)
	mux := diam.NewServeMux()
	var got []*diam.Message
	// sometimes the server bounds its writes only: then a peer may pause for as long as it
	// likes, between messages and inside one, and every handler answers
	noRT := t.Chance(1, 4)
	mux.HandleFunc("ALL", func(c diam.Conn, m *diam.Message) {
		e.mu.Lock()
		got = append(got, m)
		e.mu.Unlock()
		if noRT {
			m.Answer(2001).WriteTo(c)
		}
	})
	srv := &diam.Server{Handler: mux, Dict: simDict(), ReadTimeout: T}
	if noRT {
		srv.ReadTimeout, srv.WriteTimeout = 0, T
		e.Probe("write-timeout-only")
	}
	go srv.Serve(lis)
	lis.Connect(sc)
	e.Quiesce()
	start := time.Now()
	n := t.Range(1, 5)
	var msgs []c05Msg
	var data []byte
	for k := 0; k < n; k++ {
		m := genC05Msg(t, k, []int{0, 16, 200, 1500}[t.Draw(4)])
		msgs = append(msgs, m)
		data = append(data, m.bytes...)
	}
	e.Act("timeout", "T=%v msgs=%d", T, n)
	delivered := 0
	readStart := time.Duration(0) // when the read of the current message began
	completed := 0
	timedOut := false
	for delivered < len(data) && e.Step() {
		wait := []time.Duration{0, 0, T / 3, T - 1, T, T + 1, 2 * T}[t.Pick(4, 2, 3, 2, 1, 2, 1)]
		if wait > 0 {
			e.Quiesce()
			e.Advance(wait)
			e.Quiesce()
			e.Act("stall", "%v", wait)
		}
		now := time.Since(start)
		if !noRT && now-readStart >= T {
			timedOut = true
			e.Probe("read-deadline-passed")
			break
		}
		rem := len(data) - delivered
		k := t.Range(1, rem)
		if t.Chance(1, 3) {
			k = t.Range(1, min(rem, 19))
		}
		sc.Deliver(data[delivered : delivered+k])
		delivered += k
		e.Act("deliver", "%d", k)
		e.NonTrivial()
		e.Quiesce()
		// model: messages complete within the delivered prefix
		c := 0
		b := data[:delivered]
		for {
			_, rest, st := refFrame(b)
			if st != "ok" {
				break
			}
			c++
			b = rest
		}
		if c > completed {
			completed = c
			readStart = time.Since(start) // the next read (and its deadline) starts now
		}
	}
	e.mu.Lock()
	g := len(got)
	e.mu.Unlock()
	if timedOut {
		if !sc.Closed() {
			e.Fail("C05/read-timeout-connection-kept", "ReadTimeout %v passed while message #%d was incomplete (%d of its bytes read) and the connection was not closed", T, completed, delivered)
		} else if g != completed {
			e.Fail("C05/conn-dispatch-count/timeout", "%d messages were complete before the read timed out, %d were dispatched", completed, g)
		}
		// whatever arrives later must not be parsed from the middle of a message
		sc.Deliver(data[delivered:])
		e.Quiesce()
		e.mu.Lock()
		g2 := len(got)
		e.mu.Unlock()
		if g2 != g && !e.Failed() {
			e.Fail("C05/read-resumed-mid-message", "after a read timeout %d more message(s) were dispatched from the rest of the stream", g2-g)
		}
	} else if g != completed && !e.Failed() {
		e.Fail("C05/conn-dispatch-count/timeout", "%d messages complete, %d dispatched, no deadline passed", completed, g)
	} else if sc.Closed() && !e.Failed() {
		e.Fail("C05/closed-without-timeout", "the connection was closed although every read finished within ReadTimeout %v (write-timeout only: %v)", T, noRT)
	}
	sc.EndRead(io.EOF, false)
	lis.Close()
	e.Quiesce()
}

// ---------------------------------------------------------------- connections one after another

// c05Sequence: a connection dies with unread bytes behind an undecodable message;
// connections accepted afterwards must see their own bytes only.
func c05Sequence(e *Env) {
	t := e.T
	e.TrustWait = true
	e.maxStep = 100
	lis := newSimListener(e)
	mux := diam.NewServeMux()
	var mu sync.Mutex
	var got []*diam.Message
	mux.HandleFunc("ALL", func(_ diam.Conn, m *diam.Message) {
		mu.Lock()
		got = append(got, m)
		mu.Unlock()
	})
	srv := &diam.Server{Handler: mux, Dict: simDict()}
	go srv.Serve(lis)
	rounds := t.Range(2, 4)
	seq := 0
	for r := 0; r < rounds && !e.Failed(); r++ {
		sc := newSimConn(e, fmt.Sprintf("c%d", r), drawAddr(t, 3868), drawAddr(t, 40000+r))
		lis.Connect(sc)
		n := t.Range(1, 3)
		var msgs []c05Msg
		var data []byte
		for k := 0; k < n; k++ {
			m := genC05Msg(t, seq, []int{0, 24, 200, 1200}[t.Draw(4)])
			seq++
			msgs = append(msgs, m)
			data = append(data, m.bytes...)
		}
		endKind := []string{"eof", "badlen", "unknown-command"}[t.Draw(3)]
		if r == rounds-1 {
			endKind = "eof"
		}
		switch endKind {
		case "badlen":
			data = append(data, RefMsg{Cmd: 900, Flags: 0x80, HbH: 7, E2E: 7, Override: true, DeclLen: t.Draw(20)}.Bytes()[:20]...)
		case "unknown-command":
			data = append(data, RefMsg{Cmd: 7777, Flags: 0x80, HbH: 7, E2E: 7}.Bytes()...)
		}
		if endKind != "eof" {
			// bytes the dead connection never gets to read: they look like valid messages
			for k := 0; k < t.Range(1, 3); k++ {
				data = append(data, genC05Msg(t, 900+seq, []int{0, 40}[t.Draw(2)]).bytes...)
				seq++
			}
			e.Fault("dies-with-unread-input")
		}
		mu.Lock()
		got = nil
		mu.Unlock()
		e.Act("conn", "round %d msgs=%d end=%s bytes=%d", r, n, endKind, len(data))
		if t.Chance(1, 2) {
			sc.Deliver(data)
		} else {
			cut := t.Range(1, len(data))
			sc.Deliver(data[:cut])
			e.Quiesce()
			sc.Deliver(data[cut:])
		}
		e.Quiesce()
		sc.EndRead(io.EOF, false)
		e.Quiesce()
		mu.Lock()
		g := append([]*diam.Message{}, got...)
		mu.Unlock()
		if len(g) != len(msgs) {
			e.Fail("C05/conn-dispatch-count/sequence", "connection %d: %d messages dispatched, its peer sent %d valid ones (end=%s; earlier connections died with unread input)", r, len(g), len(msgs), endKind)
			break
		}
		for i, m := range g {
			if d := compareMsg(m, msgs[i]); d != "" {
				e.Fail("C05/conn-wrong-message/sequence", "connection %d message #%d: %s (bytes of an earlier connection?)", r, i, d)
				break
			}
		}
		if !sc.Closed() {
			e.Fail("C05/conn-not-closed/sequence", "connection %d ended (%s) and was not closed", r, endKind)
		}
		e.NonTrivial()
	}
	e.Probe("sequential-connections")
	lis.Close()
	e.Quiesce()
}
