package dsim

import (
	"bytes"
	"fmt"
	"io"
	"net"
	"sync"
	"time"

	"github.com/fiorix/go-diameter/v4/diam"
	"github.com/fiorix/go-diameter/v4/diam/sm"
	"github.com/fiorix/go-diameter/v4/diam/datatype"
	"github.com/ishidawataru/sctp"
)

// C19 — SCTP multistream: every message is assembled from one stream, in order.
// Also the stream half of C16 (answers go out on the request's stream).

func init() {
	register(&Property{
		ID: "C19", Level: "exploration",
		Rule: "each run draws 1-6 streams, each a sequence of marked messages (bodies on both sides of 1 KiB), cuts each stream's bytes into chunks at drawn offsets (inside a header, on a boundary, spanning messages, 1-byte) and interleaves the chunks arbitrarily preserving per-stream order; the engine feeds 1..n chunks at a time to the in-memory association read by the library's own connection loop; handlers answer each message. " +
			"non-trivial = at least two streams had chunks interleaved; distinct = hash of (streams, chunk-class sequence, feed sizes). The thorough tier enumerates every interleaving of 3 streams x 2 messages x 3 chunks for 64 split patterns.",
		Real:    []string{"diam.SCTPConn: ReadAny / ReadStream / ReadAtLeast / verifyStreamBuff / bufferStreamData / WriteStream, current-stream bookkeeping", "ReadMessage readHeader/readBody over a MultistreamReader", "conn.serve / readMessage (ResetCurrentStream), response.WriteStream, Message.Answer/WriteTo"},
		Stubbed: []string{"the kernel SCTP socket: in-memory backend behind the verif hook (partial delivery of chunks with stream ids, no association failure modes)", "peer: scripted"},
		Assume:  []string{"the association is consumed by the connection's single reader loop, as the property specifies; the concurrent-reader branches of SCTPConn.Read are not reachable from it"},
		Scenarios: []*Scenario{
			{Name: "streams", Weight: 1, Bubble: true, Run: func(e *Env) { c19Run(e, false, nil) }},
			{Name: "state-machine-replies", Weight: 1, Bubble: true, Run: func(e *Env) { c19SmStreams(e, "C19") }},
			{Name: "sweep-interleavings", Bubble: true, Run: c19Sweep, SweepN: c19SweepN, Exhaustive: true,
				SweepNote: "3 streams x 2 messages each, each stream cut into 3 chunks by one of 4 split patterns (64 combinations) x all 1680 interleavings of the 9 chunks, fed one chunk per step"},
		},
		MustProbes: []string{"other-stream-buffered", "chunk-ends-in-header", "chunk-spans-messages", "three-streams-buffered", "sm-reply-on-nonzero-stream"},
	})
	c16.Scenarios = append(c16.Scenarios, &Scenario{Name: "sctp-answer", Weight: 3, Bubble: true, Run: func(e *Env) { c19Run(e, true, nil) }})
	c16.Scenarios = append(c16.Scenarios, &Scenario{Name: "sctp-state-machine-replies", Weight: 1, Bubble: true, Run: func(e *Env) { c19SmStreams(e, "C16") }})
}

type sctpChunk struct {
	stream uint16
	data   []byte
}

type sctpWrite struct {
	stream uint16
	data   []byte // bytes accepted by this attempt
	tag    int    // which answer the attempt belongs to
	failed bool
}

// SimSCTP is the in-memory association behind diam.SCTPConn.
type SimSCTP struct {
	e      *Env
	mu     sync.Mutex
	q      []sctpChunk
	rerr   error
	wait   chan struct{}
	parked bool
	closed bool
	errSeen bool
	writes []sctpWrite
	reads  int
	tag    int
	wfault *WriteFault
	resume chan struct{}
	dlArm  bool          // the next SetWriteDeadline call parks
	dlGate chan struct{} // the parked SetWriteDeadline call
	laddr, raddr net.Addr
}

func newSimSCTP(e *Env) *SimSCTP {
	return &SimSCTP{e: e, wait: make(chan struct{}, 1), laddr: &net.TCPAddr{IP: net.IPv4(10, 0, 0, 2), Port: 3868}, raddr: &net.TCPAddr{IP: net.IPv4(10, 0, 0, 3), Port: 40000}}
}

func (s *SimSCTP) SCTPRead(b []byte) (int, *sctp.SndRcvInfo, error) {
	for {
		s.mu.Lock()
		if len(s.q) > 0 && len(b) > 0 {
			c := &s.q[0]
			n := copy(b, c.data)
			info := &sctp.SndRcvInfo{Stream: c.stream}
			if n == len(c.data) {
				s.q = s.q[1:]
			} else {
				c.data = c.data[n:] // partial delivery: the rest stays at the head
				s.e.Probe("partial-delivery")
			}
			s.reads++
			s.mu.Unlock()
			return n, info, nil
		}
		if s.closed {
			s.mu.Unlock()
			return 0, nil, net.ErrClosed
		}
		if s.rerr != nil {
			err := s.rerr
			s.errSeen = true
			s.mu.Unlock()
			return 0, nil, err
		}
		s.parked = true
		s.e.ParkBegin(false)
		s.mu.Unlock()
		<-s.wait
	}
}

func (s *SimSCTP) wakeLocked() {
	if s.parked {
		s.parked = false
		s.e.ParkEnd(false)
		s.wait <- struct{}{}
	}
}

func (s *SimSCTP) Feed(c sctpChunk) {
	s.mu.Lock()
	s.q = append(s.q, c)
	s.wakeLocked()
	s.mu.Unlock()
}

func (s *SimSCTP) End(err error) {
	s.mu.Lock()
	s.rerr = err
	s.wakeLocked()
	s.mu.Unlock()
}

func (s *SimSCTP) Queued() int {
	s.mu.Lock()
	defer s.mu.Unlock()
	return len(s.q)
}

func (s *SimSCTP) SCTPWrite(b []byte, info *sctp.SndRcvInfo) (int, error) {
	s.mu.Lock()
	defer s.mu.Unlock()
	if s.closed {
		return 0, net.ErrClosed
	}
	if f := s.wfault; f != nil && f.Kind == "stall-temp" {
		// the send blocks for a while, then fails with a temporary error after k bytes
		s.wfault = &WriteFault{Kind: "temp", After: f.After}
		ch := make(chan struct{})
		s.resume = ch
		s.e.ParkBegin(true)
		s.mu.Unlock()
		s.e.Fault("sctp-write-stall")
		<-ch
		s.mu.Lock()
	}
	if f := s.wfault; f != nil && f.Kind == "stall" {
		// the association's send buffer is full: the write parks until the engine resumes it
		s.wfault = nil
		ch := make(chan struct{})
		s.resume = ch
		s.e.ParkBegin(true)
		s.mu.Unlock()
		s.e.Fault("sctp-write-stall")
		<-ch
		s.mu.Lock()
	}
	// the send parameters belong to the call until it returns: they are looked at when the
	// data actually leaves (after a blocked send has been let through), like a socket that
	// copies them in when it gets round to the request
	var st uint16
	if info != nil {
		st = info.Stream
	}
	if f := s.wfault; f != nil {
		s.wfault = nil
		k := f.After
		if k > len(b) {
			k = len(b)
		}
		s.writes = append(s.writes, sctpWrite{st, append([]byte{}, b[:k]...), s.tag, true})
		s.e.Fault("sctp-write-temp-error")
		return k, &simNetErr{msg: "sim: temporary SCTP write error", temp: true}
	}
	s.writes = append(s.writes, sctpWrite{st, append([]byte{}, b...), s.tag, false})
	return len(b), nil
}

// SetWriteDeadline is a scheduling point of the real socket (it takes the descriptor's
// lock): when armed, the caller parks here until the engine lets it go on. Deadlines
// themselves are not modelled on the association.
func (s *SimSCTP) SetWriteDeadline(time.Time) error {
	s.mu.Lock()
	if !s.dlArm {
		s.mu.Unlock()
		return nil
	}
	s.dlArm = false
	ch := make(chan struct{})
	s.dlGate = ch
	s.e.ParkBegin(true)
	s.mu.Unlock()
	s.e.Probe("parked-in-set-write-deadline")
	<-ch
	return nil
}

// ArmDeadlinePark makes the next SetWriteDeadline call park.
func (s *SimSCTP) ArmDeadlinePark() {
	s.mu.Lock()
	s.dlArm = true
	s.mu.Unlock()
}

// ResumeDeadline disarms the park and releases a caller parked in SetWriteDeadline.
func (s *SimSCTP) ResumeDeadline() {
	s.mu.Lock()
	s.dlArm = false
	ch := s.dlGate
	s.dlGate = nil
	if ch != nil {
		s.e.ParkEnd(true)
	}
	s.mu.Unlock()
	if ch != nil {
		close(ch)
	}
}

// Resume releases a stalled write.
func (s *SimSCTP) Resume() {
	s.mu.Lock()
	ch := s.resume
	s.resume = nil
	if ch != nil {
		s.e.ParkEnd(true)
	}
	s.mu.Unlock()
	if ch != nil {
		close(ch)
	}
}

func (s *SimSCTP) SetTag(t int) {
	s.mu.Lock()
	s.tag = t
	s.mu.Unlock()
}

func (s *SimSCTP) ArmWriteFault(f *WriteFault) {
	s.mu.Lock()
	s.wfault = f
	s.mu.Unlock()
}

func (s *SimSCTP) Close() error {
	s.mu.Lock()
	s.closed = true
	s.wakeLocked()
	s.mu.Unlock()
	return nil
}

// EndSeen reports whether a read has returned the end condition to the library.
func (s *SimSCTP) EndSeen() bool {
	s.mu.Lock()
	defer s.mu.Unlock()
	return s.errSeen
}

func (s *SimSCTP) IsClosed() bool {
	s.mu.Lock()
	defer s.mu.Unlock()
	return s.closed
}

// Like the kernel socket behind ishidawataru/sctp, a closed association no longer
// knows its addresses.
func (s *SimSCTP) LocalAddr() net.Addr {
	s.mu.Lock()
	defer s.mu.Unlock()
	if s.closed {
		return nil
	}
	return s.laddr
}

func (s *SimSCTP) RemoteAddr() net.Addr {
	s.mu.Lock()
	defer s.mu.Unlock()
	if s.closed {
		return nil
	}
	return s.raddr
}

type c19Msg struct {
	ref   RefMsg
	bytes []byte
	rc    uint32
}

type c19Seen struct {
	stream uint
	raw    []byte
}

// c19Run: streams is nil for the seeded search, or the prepared sweep input.
func c19Run(e *Env, wide bool, sw *c19SweepCase) { c19RunX(e, wide, sw, false) }

// c19RunX: with park set, handlers park until the engine releases them (C08 on an association).
func c19RunX(e *Env, wide bool, sw *c19SweepCase, park bool) {
	t := e.T
	e.TrustWait = false // writes may be stalled inside the association with other writers queued behind them
	e.maxStep = 400
	be := newSimSCTP(e)
	msc := diam.NewVerifSCTPConn(be)
	defer diam.VerifSCTPRelease(msc)
	var mu sync.Mutex
	var seen []c19Seen
	type deferredAns struct {
		build func() *diam.Message
		c     diam.Conn
		id    int
	}
	var deferred []deferredAns
	answers := 0
	deferPlan := make([]bool, 7)
	plan := map[string]uint32{} // marker -> result code to answer with
	mux := diam.NewServeMux()
	var connSeen diam.Conn
	var gates []chan struct{}
	active := 0
	overlap := false
	parkPlan := make([]bool, 5)
	if park {
		for i := range parkPlan {
			parkPlan[i] = t.Chance(1, 2)
		}
	}
	mux.HandleFunc("ALL", func(c diam.Conn, m *diam.Message) {
		raw, _ := m.Serialize()
		mu.Lock()
		if connSeen == nil {
			connSeen = c
		}
		if active > 0 {
			overlap = true
		}
		active++
		var gate chan struct{}
		if park && parkPlan[len(seen)%len(parkPlan)] {
			gate = make(chan struct{})
			gates = append(gates, gate)
			e.ParkBegin(true)
		}
		mu.Unlock()
		if gate != nil {
			e.Probe("sctp-handler-parked")
			<-gate
		}
		defer func() { mu.Lock(); active--; mu.Unlock() }()
		mu.Lock()
		seen = append(seen, c19Seen{m.MessageStream(), raw})
		var rc uint32 = 2001
		if len(m.AVP) > 0 {
			if v, ok := plan[string(m.AVP[0].Data.Serialize()[:min(24, len(m.AVP[0].Data.Serialize()))])]; ok {
				rc = v
			}
		}
		mu.Unlock()
		build := func() *diam.Message {
			a := m.Answer(rc)
			if len(m.AVP) > 0 {
				a.NewAVP(avpSimOctets, 0, 0, datatype.OctetString(m.AVP[0].Data.Serialize()))
			} else if h := m.Header.HopByHopID; h > 0 {
				// a request without AVPs: the answer is labelled from the hop-by-hop id the peer chose
				a.NewAVP(avpSimOctets, 0, 0, datatype.OctetString(marker(int((h-1)/1000), int((h-1)%1000), 24, 0)))
			}
			return a
		}
		mu.Lock()
		answers++
		id := answers
		later := deferPlan[id%len(deferPlan)]
		if later {
			// the answer is built and written later, from another goroutine
			deferred = append(deferred, deferredAns{build, c, id})
		}
		mu.Unlock()
		if !later {
			a := build()
			be.SetTag(id)
			if wide {
				a.WriteToWithRetry(c, 2)
			} else {
				a.WriteTo(c)
			}
		}
	})
	// which answers are written later, from another goroutine, after the reader has moved on
	for i := range deferPlan {
		deferPlan[i] = t.Chance(1, 3)
	}
	var theConn diam.Conn
	var lis *SimListener
	if sw == nil && t.Chance(1, 3) {
		// accepted by a Server that has a WriteTimeout configured
		lis = newSimListener(e)
		srv := &diam.Server{Handler: mux, Dict: simDict(), WriteTimeout: time.Second}
		go srv.Serve(lis)
		lis.Connect(msc.(net.Conn))
		defer lis.Close()
		e.Act("served-with-write-timeout", "")
	} else {
		c, err := diam.NewConn(msc.(net.Conn), "sim", mux, simDict())
		if err != nil {
			e.Harness("NewConn: %v", err)
		}
		theConn = c
	}
	pinned := false
	// ---- plan streams
	var streams [][]c19Msg
	var streamIDs []uint16
	var chunks [][]sctpChunk // per stream
	if sw != nil {
		streams, streamIDs, chunks = sw.streams, sw.ids, sw.chunks
	} else {
		ns := t.Range(1, 6)
		// bulk: one stream's message stays incomplete while far more than 64 KiB arrive on another
		bulk := !park && !wide && t.Chance(1, 25)
		if bulk {
			ns = 2
			e.Probe("bulk-on-one-stream-while-another-is-mid-message")
		}
		used := map[uint16]bool{}
		for i := 0; i < ns; i++ {
			id := uint16(t.Draw(16))
			if t.Chance(1, 6) {
				// stream numbers beyond the usual sixteen
				id = []uint16{16, 17, 31, 100, 255, 4000}[t.Draw(6)]
			}
			for used[id] {
				id = (id + 1) % 16
			}
			used[id] = true
			streamIDs = append(streamIDs, id)
			nm := t.Range(1, 4)
			if bulk && i == 1 {
				nm = t.Range(70, 110)
			}
			var ms []c19Msg
			for k := 0; k < nm; k++ {
				size := []int{0, 0, 30, 200, 990, 1010, 1500}[t.Draw(7)]
				if bulk && i == 1 {
					size = 900 + t.Draw(300)
				}
				m := RefMsg{Cmd: 900, Flags: 0x80, HbH: uint32(1000*int(id) + k + 1), E2E: uint32(k + 1)}
				if wide {
					m.Flags = 0x80 | byte(t.Draw(128))
					m.HbH, m.E2E = c16IDs[t.Draw(4)], c16IDs[t.Draw(4)]
					if t.Chance(1, 2) {
						m.HbH = uint32(t.Draw(1 << 30))
					}
				}
				m.AVPs = []RefAVP{{Code: avpSimOctets, Data: marker(int(id), k, 24+size, byte(id)*16+byte(k))}}
				cm := c19Msg{ref: m, bytes: m.Bytes(), rc: []uint32{2001, 0, 3004, 5012, 0xffffffff}[t.Draw(5)]}
				if !bulk && t.Chance(1, 8) {
					// a message that is all header (Message-Length 20); its hop-by-hop id labels it
					m.HbH = uint32(1000*int(id) + k + 1)
					m.AVPs = nil
					cm = c19Msg{ref: m, bytes: m.Bytes(), rc: 2001}
					e.Probe("header-only-message")
				} else {
					plan[string(m.AVPs[0].Data[:24])] = cm.rc
				}
				ms = append(ms, cm)
			}
			streams = append(streams, ms)
			// cut into chunks
			var all []byte
			for _, m := range ms {
				all = append(all, m.bytes...)
			}
			var cs []sctpChunk
			for pos := 0; pos < len(all); {
				var k int
				switch t.Pick(3, 2, 2, 2, 1) {
				case 0:
					k = len(all) - pos
				case 1:
					k = t.Range(1, 19) // ends inside a header (when it starts on a boundary)
				case 2:
					k = t.Range(20, 120)
				case 3:
					k = t.Range(1, 1600)
				default:
					k = 1
				}
				if k > len(all)-pos {
					k = len(all) - pos
				}
				cs = append(cs, sctpChunk{id, all[pos : pos+k]})
				pos += k
			}
			if bulk {
				cs = nil
				if i == 0 {
					cut := t.Range(1, len(all)-1)
					cs = []sctpChunk{{id, all[:cut]}, {id, all[cut:]}}
				} else {
					for pos := 0; pos < len(all); {
						k := t.Range(600, 3000)
						if k > len(all)-pos {
							k = len(all) - pos
						}
						cs = append(cs, sctpChunk{id, all[pos : pos+k]})
						pos += k
					}
				}
			}
			chunks = append(chunks, cs)
		}
		if bulk {
			// the first stream's message is begun, the whole bulk arrives, then it is completed
			sw = &c19SweepCase{streams: streams, ids: streamIDs, chunks: chunks}
			sw.order = append(sw.order, 0)
			for range chunks[1] {
				sw.order = append(sw.order, 1)
			}
			sw.order = append(sw.order, 0)
		}
	}
	// classify chunks for the reach probes
	for si, cs := range chunks {
		pos := 0
		bounds := map[int]bool{}
		off := 0
		for _, m := range streams[si] {
			off += len(m.bytes)
			bounds[off] = true
		}
		for _, c := range cs {
			start := pos
			pos += len(c.data)
			// does it end inside a header?
			mo := 0
			for _, m := range streams[si] {
				if pos > mo && pos < mo+20 {
					e.Probe("chunk-ends-in-header")
				}
				if start < mo+len(m.bytes) && pos > mo+len(m.bytes) && start >= mo {
					e.Probe("chunk-spans-messages")
				}
				mo += len(m.bytes)
			}
		}
	}
	// ---- interleave
	var order []int // stream index per chunk, in feed order
	if sw != nil {
		order = sw.order
	} else {
		left := make([]int, len(chunks))
		total := 0
		for i, cs := range chunks {
			left[i] = len(cs)
			total += len(cs)
		}
		for total > 0 {
			var cands []int
			for i, l := range left {
				if l > 0 {
					cands = append(cands, i)
				}
			}
			i := cands[t.Draw(len(cands))]
			order = append(order, i)
			left[i]--
			total--
		}
		if len(chunks) > 1 {
			e.NonTrivial()
		}
	}
	e.Act("plan", "streams=%d chunks=%d", len(streams), len(order))
	next := make([]int, len(chunks))
	fed := make([]int, len(chunks)) // bytes fed per stream
	check := func(final bool) bool {
		mu.Lock()
		got := append([]c19Seen{}, seen...)
		mu.Unlock()
		perStream := map[uint][]c19Seen{}
		for _, g := range got {
			perStream[g.stream] = append(perStream[g.stream], g)
		}
		known := map[uint]int{}
		for i, id := range streamIDs {
			known[uint(id)] = i
		}
		for st, gs := range perStream {
			si, ok := known[st]
			if !ok {
				e.Fail("C19/unknown-stream", "a message reports stream %d, which carried no data", st)
				return false
			}
			if len(gs) > len(streams[si]) {
				e.Fail("C19/duplicate-or-foreign-message", "stream %d delivered %d messages, only %d were sent on it", st, len(gs), len(streams[si]))
				return false
			}
			for k, g := range gs {
				if !bytes.Equal(g.raw, streams[si][k].bytes) {
					e.Fail("C19/wrong-message-on-stream", "stream %d message %d differs from what was sent on that stream (lost, reordered or mixed with another stream's bytes)", st, k)
					return false
				}
			}
		}
		// completeness: once the queue is drained, the reader is idle and no stream is in the
		// middle of a message (the single reader loop commits to the stream that delivered the
		// first byte of a message, so a partial message on one stream may hold back the others),
		// every message received must have been delivered
		partial := false
		for si, ms := range streams {
			off := 0
			onBoundary := fed[si] == 0
			for _, m := range ms {
				off += len(m.bytes)
				if off == fed[si] {
					onBoundary = true
				}
			}
			if !onBoundary {
				partial = true
			}
		}
		mu.Lock()
		held := len(gates) > 0
		mu.Unlock()
		if be.Queued() == 0 && !partial && !held {
			for si, ms := range streams {
				complete := 0
				off := 0
				for _, m := range ms {
					off += len(m.bytes)
					if off <= fed[si] {
						complete++
					}
				}
				if len(perStream[uint(streamIDs[si])]) < complete {
					e.Fail("C19/message-not-delivered", "stream %d: %d message(s) are completely received and the reader is idle, but only %d were delivered", streamIDs[si], complete, len(perStream[uint(streamIDs[si])]))
					return false
				}
			}
		}
		return true
	}
	flushDeferred := func(max int) {
		for n := 0; n < max; n++ {
			mu.Lock()
			if len(deferred) == 0 {
				mu.Unlock()
				return
			}
			d := deferred[0]
			deferred = deferred[1:]
			mu.Unlock()
			if t.Chance(1, 2) {
				be.ArmWriteFault(&WriteFault{Kind: "temp", After: t.Range(0, 40)})
			}
			be.SetTag(d.id)
			e.Act("deferred-answer", "#%d", d.id)
			e.Probe("deferred-answer")
			done := make(chan struct{})
			go func() {
				defer close(done)
				d.build().WriteToWithRetry(d.c, 2)
			}()
			e.Quiesce()
			<-done
		}
	}
	// flushConcurrent writes several deferred answers at once: the first write stalls
	// inside the association (holding the connection's write lock), the others queue.
	flushConcurrent := func() {
		mu.Lock()
		if len(deferred) < 2 {
			mu.Unlock()
			return
		}
		n := min(len(deferred), 3)
		batch := append([]deferredAns{}, deferred[:n]...)
		deferred = deferred[n:]
		mu.Unlock()
		// either the first send stalls inside the association, or (with a Server that sets
		// write deadlines) whoever first reaches SetWriteDeadline is held there: a
		// stream-unaware write of a server-initiated request made at the same time gets there
		// on the unchanged tree; answers must not depend on it
		var rawDone chan struct{}
		be.SetTag(-1) // attempts are attributed by their marker below
		if lis != nil && t.Chance(1, 2) {
			be.ArmDeadlinePark()
			if t.Chance(2, 3) {
				req := RefMsg{Cmd: cmdDW, App: 0, Flags: 0x80, HbH: 0x7000 + uint32(len(deferred)), E2E: 0x7001,
					AVPs: identAVPs("srv.sim", "sim", true, true)}
				rawBytes := req.Bytes()
				rawDone = make(chan struct{})
				cc := batch[0].c
				go func() { defer close(rawDone); cc.Write(rawBytes) }()
				e.Quiesce()
				e.Probe("raw-write-during-answers")
			}
		} else {
			be.ArmWriteFault(&WriteFault{Kind: "stall"})
		}
		dones := make([]chan struct{}, n)
		for i, d := range batch {
			dones[i] = make(chan struct{})
			go func(d deferredAns, done chan struct{}) {
				defer close(done)
				a := d.build()
				if wide {
					a.WriteToWithRetry(d.c, 2)
				} else {
					a.WriteTo(d.c)
				}
			}(d, dones[i])
			e.Quiesce()
		}
		e.Act("concurrent-answers", "%d", n)
		e.Probe("concurrent-deferred-answers")
		be.Resume()
		be.ResumeDeadline()
		e.Quiesce()
		if rawDone != nil {
			dones = append(dones, rawDone)
		}
		for _, d := range dones {
			select {
			case <-d:
			default:
				e.Fail("C19/answer-write-stuck", "an answer written while another write was stalled never completed")
			}
		}
	}
	pos := 0
	// flushStalledRetry: a deferred answer whose first send blocks and then fails temporarily;
	// while it is blocked more inbound data arrives (the reader moves on), then the retry runs
	flushStalledRetry := func() {
		mu.Lock()
		if len(deferred) == 0 {
			mu.Unlock()
			return
		}
		d := deferred[0]
		deferred = deferred[1:]
		mu.Unlock()
		be.ArmWriteFault(&WriteFault{Kind: "stall-temp", After: t.Range(0, 40)})
		be.SetTag(d.id)
		done := make(chan struct{})
		go func() {
			defer close(done)
			d.build().WriteToWithRetry(d.c, 2)
		}()
		e.Quiesce()
		if pos < len(order) {
			// more inbound data arrives meanwhile, but not enough to complete a message (no
			// handler may write while the blocked send holds the one-shot fault): the reader
			// moves into a message on (possibly) another stream
			si := order[pos]
			c := chunks[si][next[si]]
			off, room := 0, len(c.data)
			for _, m := range streams[si] {
				off += len(m.bytes)
				if off > fed[si] {
					room = off - fed[si] - 1
					break
				}
			}
			if room > len(c.data) {
				room = len(c.data)
			}
			if room > 0 {
				part := sctpChunk{c.stream, c.data[:room]}
				if room == len(c.data) {
					next[si]++
					pos++
				} else {
					chunks[si][next[si]] = sctpChunk{c.stream, c.data[room:]}
				}
				fed[si] += room
				be.Feed(part)
				e.Quiesce()
			}
		}
		be.Resume()
		e.Quiesce()
		select {
		case <-done:
		default:
			e.Fail("C19/answer-write-stuck", "a retried answer never completed")
		}
		e.Act("stalled-retry", "#%d", d.id)
		e.Probe("retry-while-reader-moved-on")
	}
	for pos < len(order) && e.Step() {
		k := 1
		if sw == nil {
			k = t.Pick(4, 2, 1, 1) + 1
			if t.Chance(1, 6) {
				k = len(order) - pos
			}
		}
		buffered := map[int]bool{}
		for j := 0; j < k && pos < len(order); j++ {
			si := order[pos]
			c := chunks[si][next[si]]
			cls := "big"
			switch l := len(c.data); {
			case l == 1:
				cls = "1"
			case l < 20:
				cls = "<20"
			case l == 20:
				cls = "20"
			case l < 120:
				cls = "<120"
			}
			e.Act(fmt.Sprintf("chunk:s%d:%s", si, cls), "stream=%d len=%d (stream bytes %d..%d)", c.stream, len(c.data), fed[si], fed[si]+len(c.data))
			next[si]++
			fed[si] += len(c.data)
			be.Feed(c)
			buffered[si] = true
			pos++
		}
		if len(buffered) >= 2 {
			e.Probe("other-stream-buffered")
		}
		if len(buffered) >= 3 {
			e.Probe("three-streams-buffered")
		}
		e.Act("feed", "%d chunk(s), %d stream(s)", k, len(buffered))
		e.Quiesce()
		if park {
			mu.Lock()
			ov := overlap
			var g chan struct{}
			if len(gates) > 0 && t.Chance(1, 2) {
				g = gates[0]
				gates = gates[1:]
				e.ParkEnd(true)
			}
			mu.Unlock()
			if ov {
				e.Fail("C08/overlap/sctp", "a handler was entered on the association while the handler for the previous message had not returned")
				break
			}
			if g != nil {
				close(g)
				e.Act("release", "")
				e.Quiesce()
			}
		}
		if sw == nil && !pinned && t.Chance(1, 8) {
			// somebody pins the writer stream of the association (stream-unaware writes then
			// use it); answers to requests must still leave on the request's stream
			mu.Lock()
			cc := connSeen
			mu.Unlock()
			if theConn != nil {
				cc = theConn
			}
			if mw, ok := cc.(diam.MultistreamWriter); ok && cc != nil {
				mw.SetWriterStream(uint(t.Draw(16)))
				pinned = true
				e.Act("pin-writer-stream", "")
				e.Probe("writer-stream-pinned")
			}
		}
		if sw == nil && t.Chance(1, 2) {
			if t.Chance(1, 3) {
				flushConcurrent()
			}
			if t.Chance(1, 3) && pos < len(order) {
				flushStalledRetry()
			} else {
				flushDeferred(1)
			}
		}
		if be.IsClosed() {
			e.Fail("C19/association-dropped", "the library closed the association while reading valid interleaved data (log: %s)", short(e.LogText(), 200))
			break
		}
		if !check(false) {
			break
		}
	}
	releaseAll := func() {
		for r := 0; r < 50; r++ {
			mu.Lock()
			gs := gates
			gates = nil
			for range gs {
				e.ParkEnd(true)
			}
			mu.Unlock()
			if len(gs) == 0 {
				return
			}
			for _, g := range gs {
				close(g)
			}
			e.Quiesce()
		}
	}
	if park {
		defer releaseAll()
	}
	if !e.Failed() {
		for pos < len(order) {
			si := order[pos]
			c := chunks[si][next[si]]
			next[si]++
			fed[si] += len(c.data)
			be.Feed(c)
			pos++
		}
		e.Quiesce()
		releaseAll()
		mu.Lock()
		ov := overlap
		mu.Unlock()
		if ov {
			e.Fail("C08/overlap/sctp", "a handler was entered on the association while the handler for the previous message had not returned")
		} else if be.IsClosed() {
			e.Fail("C19/association-dropped", "the library closed the association while reading valid interleaved data")
		} else {
			check(true)
		}
	}
	if !e.Failed() {
		flushDeferred(1000)
	}
	// replies: each on the stream of its request, mirroring it
	if !e.Failed() {
		be.mu.Lock()
		raw := append([]sctpWrite{}, be.writes...)
		be.mu.Unlock()
		// reassemble answers from their write attempts; every attempt must use one stream
		var ws []sctpWrite
		byTag := map[int]int{}
		for ai := range raw {
			if raw[ai].tag == -1 {
				// written by concurrent tasks: whole messages, identified by their marker
				tg := -1000 - ai
				if rm, err := refParse(raw[ai].data); err == nil {
					if mk := rm.find(avpSimOctets); mk != nil {
						if sid, k, ok := parseMarker(mk.Data); ok {
							tg = -1000000 - sid*1000 - k
						}
					}
				}
				raw[ai].tag = tg
			}
		}
		for _, a := range raw {
			if len(a.data) >= 20 && a.data[4]&0x80 != 0 && a.tag <= -1000 {
				continue // the server-initiated request of flushConcurrent (stream-unaware write; not a reply)
			}
			i, ok := byTag[a.tag]
			if !ok {
				byTag[a.tag] = len(ws)
				ws = append(ws, sctpWrite{stream: a.stream, tag: a.tag, data: append([]byte{}, a.data...)})
				continue
			}
			if ws[i].stream != a.stream {
				sig := "C19/reply-on-wrong-stream"
				if wide {
					sig = "C16/answer-on-wrong-stream"
				}
				e.Fail(sig+"/retried-part", "an answer was started on stream %d and, after a temporary write error, continued on stream %d", ws[i].stream, a.stream)
				break
			}
			ws[i].data = append(ws[i].data, a.data...)
		}
		total := 0
		for _, ms := range streams {
			total += len(ms)
		}
		if len(ws) != total {
			e.Fail("C19/reply-count", "%d messages were answered by the handler, %d replies reached the association", total, len(ws))
		}
		for _, wr := range ws {
			if e.Failed() {
				break
			}
			rm, err := refParse(wr.data)
			if err != nil {
				e.Fail("C19/reply-unparsable", "a reply does not parse: %v", err)
				break
			}
			mk := rm.find(avpSimOctets)
			if mk == nil {
				e.Fail("C19/reply-unparsable", "a reply carries no marker")
				break
			}
			sid, k, ok := parseMarker(mk.Data)
			if !ok {
				e.Fail("C19/reply-unparsable", "a reply carries no marker")
				break
			}
			if uint16(sid) != wr.stream {
				sig := "C19/reply-on-wrong-stream"
				if wide {
					sig = "C16/answer-on-wrong-stream"
				}
				e.Fail(sig, "the answer to message %d received on stream %d was written to stream %d", k, sid, wr.stream)
				break
			}
			if wide {
				for si, id := range streamIDs {
					if int(id) == sid && k < len(streams[si]) {
						req := &sentMsg{ref: streams[si][k].ref, plan: plan2(streams[si][k].rc)}
						if d := mirrorDiff(req, rm); d != "" {
							e.Fail("C16/answer-mismatch/"+d[:indexByte(d, ':')], "SCTP stream %d message %d: %s", sid, k, d)
						}
					}
				}
			}
		}
	}
	be.End(io.EOF)
	e.Quiesce()
}

func plan2(rc uint32) plan { return plan{answer: true, rc: rc} }

func indexByte(s string, c byte) int {
	for i := 0; i < len(s); i++ {
		if s[i] == c {
			return i
		}
	}
	return len(s)
}

// ---------------------------------------------------------------- sweep

type c19SweepCase struct {
	streams [][]c19Msg
	ids     []uint16
	chunks  [][]sctpChunk
	order   []int
}

var c19Orders [][]int

func c19GenOrders() {
	if c19Orders != nil {
		return
	}
	var rec func(left [3]int, cur []int)
	rec = func(left [3]int, cur []int) {
		if left[0]+left[1]+left[2] == 0 {
			c19Orders = append(c19Orders, append([]int{}, cur...))
			return
		}
		for i := 0; i < 3; i++ {
			if left[i] > 0 {
				l := left
				l[i]--
				rec(l, append(cur, i))
			}
		}
	}
	rec([3]int{3, 3, 3}, nil)
}

func c19SweepN(thorough bool) int {
	c19GenOrders()
	return 64 * len(c19Orders)
}

func c19Sweep(e *Env) {
	c19GenOrders()
	k := e.Case
	oi := k % len(c19Orders)
	sp := k / len(c19Orders)
	sw := &c19SweepCase{order: c19Orders[oi]}
	sizes := [3][2]int{{0, 8}, {24, 4}, {12, 40}}
	for si := 0; si < 3; si++ {
		id := uint16(si*5 + 1)
		sw.ids = append(sw.ids, id)
		var ms []c19Msg
		var all []byte
		for j := 0; j < 2; j++ {
			m := RefMsg{Cmd: 900, Flags: 0x80, HbH: uint32(100*si + j + 1), E2E: uint32(j + 1)}
			m.AVPs = []RefAVP{{Code: avpSimOctets, Data: marker(int(id), j, 24+sizes[si][j], byte(si*16+j))}}
			cm := c19Msg{ref: m, bytes: m.Bytes(), rc: 2001}
			ms = append(ms, cm)
			all = append(all, cm.bytes...)
		}
		sw.streams = append(sw.streams, ms)
		l0 := len(ms[0].bytes)
		var cuts [2]int
		switch (sp >> (2 * uint(si))) & 3 {
		case 0: // on the message boundary, then inside the second header
			cuts = [2]int{l0, l0 + 7}
		case 1: // inside the first header, then spanning the boundary
			cuts = [2]int{5, l0 + 25}
		case 2: // header exactly, then mid-body of the first message
			cuts = [2]int{20, l0 - 3}
		default: // one byte, then everything but the last byte
			cuts = [2]int{1, len(all) - 1}
		}
		sw.chunks = append(sw.chunks, []sctpChunk{{id, all[:cuts[0]]}, {id, all[cuts[0]:cuts[1]]}, {id, all[cuts[1]:]}})
	}
	e.NonTrivial()
	e.Act("sweep", "split=%d order=%v", sp, sw.order)
	c19Run(e, false, sw)
	_ = fmt.Sprint
}

// ---------------------------------------------------------------- C15 on SCTP associations

// c15Sctp: several associations served through one mux; one of them fails in the
// middle of a message. The others must be served completely and the process must live.
func c15Sctp(e *Env) {
	t := e.T
	e.TrustWait = true
	e.maxStep = 200
	type assoc struct {
		name   string
		be     *SimSCTP
		chunks []sctpChunk
		next   int
		total  int // messages planned
		faultAt int // feed index at which the association fails (-1 = healthy)
		failed bool
		panics bool
	}
	var mu sync.Mutex
	handled := map[string]int{}
	mux := diam.NewServeMux()
	panicOn := -1 // association whose first handler panics (instead of a read error)
	closeFirst := t.Chance(1, 2)
	mux.HandleFunc("ALL", func(c diam.Conn, m *diam.Message) {
		if len(m.AVP) > 0 {
			if ai, _, ok := parseMarker(m.AVP[0].Data.Serialize()); ok {
				mu.Lock()
				handled[fmt.Sprintf("a%d", ai)]++
				boom := ai == panicOn
				mu.Unlock()
				if boom {
					e.Fault("sctp-handler-panic")
					if closeFirst {
						// the handler gives up the association, then fails
						c.Close()
						e.Probe("sctp-handler-closes-then-panics")
					}
					panic("sim: handler panic on an SCTP association")
				}
			}
		}
		a := m.Answer(2001)
		a.WriteTo(c)
	})
	reports := 0
	na := t.Range(2, 3)
	faulty := t.Draw(na)
	var as []*assoc
	for i := 0; i < na; i++ {
		a := &assoc{name: fmt.Sprintf("a%d", i), be: newSimSCTP(e), faultAt: -1}
		a.be.raddr = &net.TCPAddr{IP: net.IPv4(10, 0, 1, byte(i+1)), Port: 40000 + i}
		ns := t.Range(1, 2)
		seq := 0
		for s := 0; s < ns; s++ {
			nm := t.Range(1, 3)
			var all []byte
			for k := 0; k < nm; k++ {
				size := []int{0, 40, 1100}[t.Draw(3)]
				m := RefMsg{Cmd: 900, Flags: 0x80, HbH: uint32(seq + 1), E2E: uint32(seq + 1), AVPs: []RefAVP{{Code: avpSimOctets, Data: marker(i, seq, 24+size, byte(i))}}}
				all = append(all, m.Bytes()...)
				seq++
			}
			for pos := 0; pos < len(all); {
				k := []int{len(all) - pos, t.Range(1, 19), 20, t.Range(21, 200)}[t.Draw(4)]
				if k > len(all)-pos {
					k = len(all) - pos
				}
				a.chunks = append(a.chunks, sctpChunk{uint16(s + 1), all[pos : pos+k]})
				pos += k
			}
			a.total += nm
		}
		if i == faulty {
			if t.Chance(1, 3) {
				mu.Lock()
				panicOn = i
				mu.Unlock()
				a.panics = true
			} else {
				a.faultAt = t.Range(0, len(a.chunks))
			}
		}
		msc := diam.NewVerifSCTPConn(a.be)
		defer diam.VerifSCTPRelease(msc)
		if _, err := diam.NewConn(msc.(net.Conn), "sim", mux, simDict()); err != nil {
			e.Harness("NewConn: %v", err)
		}
		as = append(as, a)
	}
	e.Act("sctp-faults", "assocs=%d faulty=%d at chunk %d", na, faulty, as[faulty].faultAt)
	for e.Step() {
		var live []*assoc
		for _, a := range as {
			if !a.failed && (a.next < len(a.chunks) || a.faultAt == a.next) {
				live = append(live, a)
			}
		}
		if len(live) == 0 {
			break
		}
		a := live[t.Draw(len(live))]
		if a.faultAt == a.next {
			a.be.End(errSimReset)
			a.failed = true
			e.Fault("sctp-read-error")
			e.Act("fail", "%s", a.name)
		} else {
			a.be.Feed(a.chunks[a.next])
			a.next++
			e.Act("feed", "%s", a.name)
		}
		e.NonTrivial()
		e.Quiesce()
		for {
			select {
			case <-mux.ErrorReports():
				reports++
				continue
			default:
			}
			break
		}
	}
	mu.Lock()
	defer mu.Unlock()
	for _, a := range as {
		if a.panics {
			if handled[a.name] > 0 && !a.be.IsClosed() {
				e.Fail("C15/faulty-connection-not-closed/sctp", "%s: a handler panicked and the association was not closed", a.name)
			}
			continue
		}
		if a.failed {
			if !a.be.IsClosed() {
				e.Fail("C15/faulty-connection-not-closed/sctp", "%s: the association's read failed and it was not closed", a.name)
			}
			continue
		}
		if handled[a.name] != a.total {
			e.Fail("C15/healthy-connection-not-served/sctp", "%s: %d of %d messages handled after another association failed", a.name, handled[a.name], a.total)
		}
		if a.be.IsClosed() {
			e.Fail("C15/healthy-connection-closed/sctp", "%s had no fault but was closed", a.name)
		}
		a.be.mu.Lock()
		nw := len(a.be.writes)
		a.be.mu.Unlock()
		if nw != a.total && !e.Failed() {
			e.Fail("C15/answer-count/sctp", "%s: %d answers for %d requests", a.name, nw, a.total)
		}
	}
	for _, a := range as {
		a.be.End(io.EOF)
	}
	e.Quiesce()
	_ = reports
}

// c19SmStreams: the replies the library itself builds — the state machine's CEA and DWA — on a
// multi-stream association: each goes out on the stream its request arrived on, mirroring it.
func c19SmStreams(e *Env, prop string) {
	t := e.T
	e.TrustWait = true
	be := newSimSCTP(e)
	msc := diam.NewVerifSCTPConn(be)
	defer diam.VerifSCTPRelease(msc)
	settings := &sm.Settings{OriginHost: "srv.dsim.example", OriginRealm: "dsim.example", VendorID: 13, ProductName: "dsim",
		HostIPAddresses: []datatype.Address{datatype.Address(net.IPv4(172, 16, 0, 1))}}
	if t.Chance(1, 3) {
		settings.OriginStateID = 7
	}
	mach := sm.New(settings)
	if _, err := diam.NewConn(msc.(net.Conn), "sim", mach, nil); err != nil {
		e.Harness("NewConn: %v", err)
	}
	defer func() { be.End(io.EOF); e.Quiesce() }()
	type sent struct {
		req    RefMsg
		stream uint16
		what   string
	}
	var reqs []sent
	feed := func(m RefMsg, what string) {
		st := uint16(t.Draw(16))
		b := m.Bytes()
		if t.Chance(1, 3) && len(b) > 30 {
			cut := t.Range(1, len(b)-1)
			be.Feed(sctpChunk{st, b[:cut]})
			e.Quiesce()
			be.Feed(sctpChunk{st, b[cut:]})
		} else {
			be.Feed(sctpChunk{st, b})
		}
		e.Quiesce()
		reqs = append(reqs, sent{m, st, what})
		if st != 0 {
			e.Probe("sm-reply-on-nonzero-stream")
		}
	}
	spec := cerSpec{host: true, realm: true, inband: t.Draw(2), entries: []appEntry{{kind: "auth", id: 4}}, hbh: c16IDs[t.Draw(4)], e2e: c16IDs[t.Draw(4)], flags: byte(t.Draw(2)) << 6}
	feed(spec.msg("peer.example", "example"), "cea")
	for i, n := 0, t.Range(1, 4); i < n; i++ {
		dwr := RefMsg{Cmd: cmdDW, Flags: 0x80 | byte(t.Draw(2))<<6, HbH: 0x6000 + uint32(i), E2E: c16IDs[t.Draw(4)] ^ uint32(i+1), AVPs: identAVPs("peer.example", "example", true, true)}
		if t.Chance(1, 3) {
			dwr.AVPs = append(dwr.AVPs, RefAVP{Code: avpOriginState, Flags: 0x40, Data: u32(uint32(t.Draw(3)))})
		}
		feed(dwr, "dwa")
	}
	e.NonTrivial()
	be.mu.Lock()
	ws := append([]sctpWrite{}, be.writes...)
	be.mu.Unlock()
	if len(ws) != len(reqs) {
		e.Fail(prop+"/reply-count", "the state machine got a CER and %d DWRs from a handshaken peer; %d replies reached the association", len(reqs)-1, len(ws))
		return
	}
	for i, w := range ws {
		rm, err := refParse(w.data)
		if err != nil {
			e.Fail(prop+"/reply-unparsable", "reply %d does not parse: %v", i, err)
			return
		}
		rq := reqs[i]
		if w.stream != rq.stream {
			sig := "C19/reply-on-wrong-stream/state-machine"
			if prop == "C16" {
				sig = "C16/answer-on-wrong-stream/state-machine"
			}
			e.Fail(sig, "the %s for the request received on stream %d was written to stream %d", rq.what, rq.stream, w.stream)
			return
		}
		if !mirrorHeader(prop, rq.what, e, rq.req, &rm) {
			return
		}
	}
}
