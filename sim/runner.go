package dsim

import (
	"bytes"
	"fmt"
	"log"
	"math/rand"
	"runtime"
	"runtime/debug"
	"strings"
	"sync/atomic"
	"testing"
	"testing/synctest"
	"time"

	"github.com/fiorix/go-diameter/v4/diam"
)

// RunDesc identifies one execution exactly.
type RunDesc struct {
	Prop string   `json:"property"`
	Scen string   `json:"scenario"`
	Case int      `json:"case"` // sweep case or -1
	Seed uint64   `json:"seed"`
	Tape []uint32 `json:"tape,omitempty"` // when present the run replays these draws
}

// RunResult is what one execution produced.
type RunResult struct {
	Desc     RunDesc
	Viol     *Violation
	Tape     []uint32
	Marks    []int
	Hash     uint64
	NonTriv  bool
	Faults   map[string]int
	Probes   map[string]int
	SimSpan  time.Duration
	Detail   []string
	Kinds    []string
	HarnessE string // harness trouble (never a violation)
	Leftover bool   // goroutines were still blocked when the bubble ended
	Abandoned bool  // the bubble could not end (goroutines blocked on a lock); it was left behind
}

var theT *testing.T // the *testing.T of TestWorker (synctest needs one)

var curEnv atomic.Pointer[Env]
var curRun atomic.Value // string describing the run in progress (for the hang watchdog)
var runStart atomic.Int64

// runOne executes one run of a scenario and returns what happened.
func runOne(p *Property, sc *Scenario, d RunDesc, thorough bool) (res RunResult) {
	var tape *Tape
	if d.Tape != nil {
		tape = ReplayTape(d.Tape)
	} else {
		tape = NewTape(d.Seed)
	}
	e := newEnv(p.ID, sc.Name, d.Case, d.Seed, thorough, tape)
	curEnv.Store(e)
	curRun.Store(fmt.Sprintf("%s/%s case=%d seed=%d replay=%v", p.ID, sc.Name, d.Case, d.Seed, d.Tape != nil))
	runStart.Store(time.Now().UnixNano())
	defer runStart.Store(0)

	// Pin what the library would otherwise take from the environment.
	rand.Seed(int64(d.Seed)) // library ids (NewMessage); needs //go:debug randseednop=0
	log.SetFlags(0)
	log.SetOutput(envLogWriter{e})
	diam.VerifYield = nil
	oldGC := debug.SetGCPercent(-1)
	defer func() {
		debug.SetGCPercent(oldGC)
		diam.VerifYield = nil
		log.SetOutput(discard{})
		// Empty both sync.Pools (two cycles: primary, then victim cache) so that a
		// seed behaves the same alone as in the middle of a batch.
		runtime.GC()
		runtime.GC()
	}()

	body := func() {
		defer func() {
			if r := recover(); r != nil {
				if hp, ok := r.(harnessPanic); ok {
					res.HarnessE = string(hp)
					return
				}
				buf := make([]byte, 8192)
				buf = buf[:runtime.Stack(buf, false)]
				// A panic on the engine goroutine out of library code called
				// synchronously by a scenario is the library's; scenarios that
				// call the library directly recover and classify it themselves.
				res.HarnessE = fmt.Sprintf("engine panic: %v\n%s", r, buf)
			}
		}()
		sc.Run(e)
	}
	if sc.Bubble {
		e.inBub = true
		// let goroutines of earlier runs that are on their way out finish, so that
		// the goroutine count taken at bubble start is a stable baseline
		for i, last, same := 0, -1, 0; i < 50 && same < 3; i++ {
			runtime.Gosched()
			if n := runtime.NumGoroutine(); n == last {
				same++
			} else {
				last, same = n, 0
			}
		}
		bodyDone := make(chan struct{}) // deliberately created outside the bubble
		finished := make(chan struct{})
		go func() {
			defer close(finished)
			defer func() {
				if r := recover(); r != nil {
					// end-of-bubble deadlock panic: goroutines left behind
					msg := fmt.Sprint(r)
					if strings.Contains(msg, "deadlock") {
						res.Leftover = true
						return
					}
					res.HarnessE = "bubble panic: " + msg
				}
			}()
			synctest.Test(theT, func(t *testing.T) {
				defer close(bodyDone)
				e.wake = make(chan struct{}, 1)
				e.baseG = runtime.NumGoroutine()
				start := time.Now()
				body()
				e.simSpan = time.Since(start)
			})
		}()
		// Wait for the scenario to finish. If it does not within seconds of real time
		// the bubble may be frozen: a library goroutine woken by a library timer now
		// waits on a lock held by a goroutine the engine has parked (e.g. a stalled
		// write), which stops the fake clock while the engine waits for it.
		frozen := ""
	waitBody:
		for waited := 0; ; waited++ {
			select {
			case <-bodyDone:
				break waitBody
			case <-time.After(100 * time.Millisecond):
			}
			if waited >= 30 && waited%5 == 0 {
				if f := frozenBubble(); f != "" {
					if frozen == f {
						e.Fail(p.ID+"/frozen/"+f, "a library goroutine waits on a lock held across an operation the transport has stalled (blocked in %s); nothing can make progress and the fake clock is stopped", f)
						res.Abandoned, res.Leftover = true, true
						goto bubbleOver
					}
					frozen = f
				}
			}
		}
		// The bubble ends when its goroutines have exited or are durably blocked.
		// Goroutines stuck on a lock nobody will release (only ever the case after
		// a violation) would keep it open forever: abandon it after a short wait.
		deadline := time.Now().Add(40 * time.Millisecond)
	waitEnd:
		for {
			select {
			case <-finished:
				break waitEnd
			default:
			}
			if time.Now().After(deadline) {
				res.Abandoned = true
				res.Leftover = true
				break
			}
			time.Sleep(20 * time.Microsecond)
		}
	} else {
		body()
	}
bubbleOver:
	res.Desc = d
	res.Desc.Scen = sc.Name
	res.Viol = e.viol
	res.Tape = tape.Rec
	res.Marks = tape.Marks
	res.Hash = e.traceHash()
	res.NonTriv = e.nontriv
	res.Faults = e.Faults
	res.Probes = e.Probes
	res.SimSpan = e.simSpan
	res.Detail = e.detail
	res.Kinds = e.kinds
	return res
}

type discard struct{}

func (discard) Write(p []byte) (int, error) { return len(p), nil }

// harnessPanic aborts a run for a reason that is the simulator's, not the library's.
type harnessPanic string

func (e *Env) Harness(format string, a ...interface{}) {
	panic(harnessPanic(fmt.Sprintf(format, a...)))
}

// ---------------------------------------------------------------- quiescence

// gstate is the parsed header of one goroutine of a full stack dump.
type gstate struct {
	id      string
	state   string
	bubble  bool
	bubbleID string
	durable bool
	body    string
}

func dumpGoroutines() []gstate {
	buf := make([]byte, 1<<16)
	for {
		n := runtime.Stack(buf, true)
		if n < len(buf) {
			buf = buf[:n]
			break
		}
		buf = make([]byte, 2*len(buf))
	}
	var out []gstate
	for _, blk := range bytes.Split(buf, []byte("\n\n")) {
		s := string(blk)
		if !strings.HasPrefix(s, "goroutine ") {
			continue
		}
		nl := strings.IndexByte(s, '\n')
		hdr := s
		if nl >= 0 {
			hdr = s[:nl]
		}
		lb := strings.IndexByte(hdr, '[')
		rb := strings.LastIndexByte(hdr, ']')
		if lb < 0 || rb < lb {
			continue
		}
		g := gstate{id: strings.TrimSpace(hdr[len("goroutine "):lb]), body: s}
		inner := hdr[lb+1 : rb]
		parts := strings.Split(inner, ", ")
		g.state = parts[0]
		g.bubble = strings.Contains(inner, "synctest bubble")
		if i := strings.Index(inner, "synctest bubble "); i >= 0 {
			id := inner[i+len("synctest bubble "):]
			if j := strings.IndexAny(id, ",]"); j >= 0 {
				id = id[:j]
			}
			g.bubbleID = id
		}
		g.durable = strings.Contains(inner, "(durable)")
		out = append(out, g)
	}
	return out
}

// Quiesce lets every other goroutine of the bubble run until it blocks. It
// returns true when all of them are durably blocked (synctest.Wait succeeded),
// false when some are blocked on a mutex-like primitive held by a goroutine the
// engine itself has parked (then the clock must not be advanced).
func (e *Env) Quiesce() bool {
	if !e.inBub {
		return true
	}
	if e.TrustWait && !e.forceDump {
		// The scenario never parks a goroutine inside library code, so nothing
		// can wait on a lock held across a park: durable blocking is the only
		// stable state.
		synctest.Wait()
		return true
	}
	for i := 0; i < 4; i++ {
		runtime.Gosched()
		if int(e.seamParks.Load()) == runtime.NumGoroutine()-e.baseG {
			// every other goroutine of the bubble sits at a harness seam
			synctest.Wait()
			return true
		}
	}
	return e.quiesceByDump()
}

// quiesceByDump polls goroutine states from a full stack dump (expensive; only
// needed while the engine holds a goroutine parked inside library code and some
// other goroutine is not at a seam).
func (e *Env) quiesceByDump() bool {
	e.Probe("quiesce-by-dump")
	for spin := 0; ; spin++ {
		runtime.Gosched()
		gs := dumpGoroutines()
		busy, soft := false, false
		for i, g := range gs {
			if i == 0 || !g.bubble || g.bubbleID != gs[0].bubbleID { // gs[0] is the caller
				continue
			}
			switch {
			case g.state == "running" || g.state == "runnable" || strings.HasPrefix(g.state, "syscall"):
				busy = true
			case !g.durable:
				soft = true
			}
		}
		if busy {
			if spin > 200000 {
				e.Harness("quiesce: goroutines stay runnable")
			}
			continue
		}
		if soft {
			e.Probe("quiesce-nondurable")
			return false
		}
		synctest.Wait()
		return true
	}
}

// Advance moves the fake clock forward by at most d, returning early (at the
// exact fake instant) when a seam reports library activity. It returns the
// time that passed. The caller must have quiesced durably.
func (e *Env) Advance(d time.Duration) time.Duration {
	select {
	case <-e.wake:
	default:
	}
	t0 := time.Now()
	tm := time.NewTimer(d)
	select {
	case <-e.wake:
		tm.Stop()
	case <-tm.C:
	}
	return time.Since(t0)
}

// Poke tells the engine that the library did something observable.
func (e *Env) Poke() {
	if e.wake == nil {
		return
	}
	select {
	case e.wake <- struct{}{}:
	default:
	}
}

// LibGoroutines returns the bubble goroutines (other than the caller) that have
// a go-diameter frame on their stack.
func (e *Env) LibGoroutines() []string {
	var out []string
	gs := dumpGoroutines()
	for i, g := range gs {
		if i == 0 || !g.bubble || g.bubbleID != gs[0].bubbleID {
			continue
		}
		if strings.Contains(g.body, "github.com/fiorix/go-diameter") {
			out = append(out, g.body)
		}
	}
	return out
}

// Step bounds the number of engine steps of a run.
func (e *Env) Step() bool {
	e.steps++
	e.T.Mark()
	return e.steps <= e.maxStep
}

// frozenBubble inspects all goroutines (called from outside any bubble). It
// returns the library function a goroutine is blocked in when some bubble has
// its engine waiting in Env.Advance while a sibling waits, non-durably, on a
// lock inside go-diameter code; otherwise "".
func frozenBubble() string {
	gs := dumpGoroutines()
	engines := map[string]bool{}
	for _, g := range gs {
		if g.bubble && strings.Contains(g.body, "dsim.(*Env).Advance") {
			engines[g.bubbleID] = true
		}
	}
	for _, g := range gs {
		if !g.bubble || !engines[g.bubbleID] || g.durable {
			continue
		}
		if !strings.HasPrefix(g.state, "sync.") {
			continue
		}
		for _, line := range strings.Split(g.body, "\n") {
			if i := strings.Index(line, "github.com/fiorix/go-diameter/v4/"); i == 0 {
				fn := line[len("github.com/fiorix/go-diameter/v4/"):]
				if j := strings.IndexByte(fn, '('); j > 0 && strings.HasSuffix(fn[:j], ".") == false {
					// keep "diam.(*response).Close"
				}
				if k := strings.LastIndexByte(fn, '('); k > 0 {
					fn = fn[:k]
				}
				return fn
			}
		}
	}
	return ""
}
