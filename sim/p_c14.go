package dsim

import (
	"fmt"
	"io"
	"os"
	"sort"
	"strings"
	"sync"
	"sync/atomic"
	"time"

	"github.com/fiorix/go-diameter/v4/diam"
)

// C14 — CloseNotify fires exactly once when, and only when, the connection is gone.

func init() {
	register(&Property{
		ID: "C14", Level: "exploration",
		Rule: "one connection per run (dialled via NewConn or accepted by Serve); the engine orders the events {CloseNotify requested from a handler / from another goroutine (reader blocked or not) / after termination, fragment delivered, peer EOF (also delivered together with the last bytes), read error, undecodable message followed by up to 6 KiB of trailing data, local Close from a handler or another goroutine, release of the reader / copier at the five tagged yield points, release of parked handlers}; " +
			"non-trivial = CloseNotify was requested at least once before termination and the engine had a step with two or more enabled actions; distinct = hash of the event-kind sequence. The thorough tier additionally enumerates all event-kind sequences up to length 6 over a fixed 3-message workload.",
		Real:    []string{"conn.closeNotify, liveSwitchReader.Read, the copier goroutine and io.Pipe, conn.serve and its exit path (finish), notifyClientGone", "bufio.Reader, ReadMessage, ServeMux", "Server.Serve (accepted variant)"},
		Stubbed: []string{"transport: SimConn", "peer: scripted", "handlers and caller tasks: harness code released by the engine", "scheduling inside the library's reaction to an event: verifYield hook sites"},
		Assume:  []string{"terminated = the library closed the transport, or a Read returned the end condition (EOF / error) to the library", "preemption is explored at transport seams, handler boundaries and the five yield sites"},
		Scenarios: []*Scenario{
			{Name: "events", Weight: 5, Bubble: true, Run: func(e *Env) { c14Run(e, nil) }},
			{Name: "watchdog-client", Weight: 1, Bubble: true, Run: func(e *Env) { c13Client(e, true) }},
			{Name: "sctp-association", Weight: 1, Bubble: true, Run: c14Sctp},
			{Name: "read-timeout-with-slow-handler", Weight: 1, Bubble: true, Run: c14ReadTimeout},
			{Name: "sweep-events", Bubble: true, Run: c14Sweep, SweepN: c14SweepN, Exhaustive: true,
				SweepNote: "all sequences of length <= 6 over the 7 event kinds {deliver-message, deliver-byte, cn-handler(next message), cn-task, terminate(kind by case), release-one, unyield-one} x 4 termination kinds, on a 3-message workload with yield sites enabled"},
		},
		MustProbes: []string{"cn-while-reader-blocked", "cn-from-handler", "cn-after-termination", "term:peer-eof", "term:rst", "term:undecodable", "term:local-close", "yield-parked", "copier-at-notify", "eof-with-data", "cn-from-error-reporter", "handler-answer", "write-temp", "sctp-cn-from-handler", "sctp-cn-from-task", "sctp-term:read-error"},
	})
}

type cnMsg struct {
	bytes  []byte
	start  int
	cn     bool // handler requests CloseNotify
	park   bool
	close  bool // handler closes the connection
	bad    bool
	answer bool   // handler writes an answer ...
	wfault string // ... whose transport write fails this way ("" = succeeds)
	wafter int
}

type cnChan struct {
	ch   <-chan struct{}
	kind string
	seq  uint64
}

type cnWorld struct {
	e        *Env
	sc       *SimConn
	lis      *SimListener
	conn     diam.Conn
	msgs     []*cnMsg
	stream   []byte
	sent     int
	term     string
	termDone bool

	mu           sync.Mutex
	chans        []cnChan
	entered      []int
	parked       []chan struct{}
	yielded      []*yieldPark
	yieldsOff    atomic.Bool
	closing      atomic.Bool
	localClosed  bool
	cnBeforeTerm bool
	forcedCN     map[int]bool
	nValid       int
}

func (w *cnWorld) terminated() bool { return w.sc.Closed() || w.sc.EndSeen() }

func (w *cnWorld) record(ch <-chan struct{}, kind string) {
	w.mu.Lock()
	w.chans = append(w.chans, cnChan{ch, kind, w.e.Seq()})
	if !w.terminated() {
		w.cnBeforeTerm = true
	}
	w.mu.Unlock()
	w.e.Probe("cn-" + kind)
}

// cnReporter is a handler that requests CloseNotify from inside ErrorReporter.Error.
type cnReporter struct {
	*diam.ServeMux
	w *cnWorld
}

func (r cnReporter) Error(er *diam.ErrorReport) {
	if er != nil && er.Conn != nil {
		if cn, ok := er.Conn.(diam.CloseNotifier); ok {
			ch := cn.CloseNotify()
			r.w.record(ch, "from-error-reporter")
		}
	}
	r.ServeMux.Error(er)
}

func isClosed(ch <-chan struct{}) bool {
	select {
	case <-ch:
		return true
	default:
		return false
	}
}

func (w *cnWorld) handler(c diam.Conn, m *diam.Message) {
	e := w.e
	seq := -1
	if len(m.AVP) > 0 {
		if _, s, ok := parseMarker(m.AVP[0].Data.Serialize()); ok {
			seq = s
		}
	}
	w.mu.Lock()
	if w.conn == nil {
		w.conn = c
	}
	w.entered = append(w.entered, seq)
	var pl cnMsg
	if seq >= 0 && seq < len(w.msgs) {
		pl = *w.msgs[seq]
		if w.forcedCN[seq] {
			pl.cn = true
		}
	}
	w.mu.Unlock()
	if pl.cn {
		ch := c.(diam.CloseNotifier).CloseNotify()
		w.record(ch, "from-handler")
	}
	if pl.answer {
		if pl.wfault != "" {
			w.sc.ArmWriteFault(&WriteFault{Kind: pl.wfault, After: pl.wafter})
		}
		a := m.Answer(2001)
		a.WriteTo(c) // a failed write does not end the connection
		w.sc.ArmWriteFault(nil)
		e.Probe("handler-answer")
	}
	if pl.park && !w.closing.Load() {
		gate := make(chan struct{})
		w.mu.Lock()
		w.parked = append(w.parked, gate)
		e.ParkBegin(true)
		w.mu.Unlock()
		e.Poke()
		<-gate
	}
	if pl.close {
		w.mu.Lock()
		w.localClosed = true
		w.mu.Unlock()
		e.Fault("local-close-from-handler")
		c.Close()
	}
}

func (w *cnWorld) installYields(every map[string]int, budget int) {
	count := map[string]int{}
	diam.VerifYield = func(site string) {
		n, ok := every[site]
		if !ok || w.yieldsOff.Load() {
			return
		}
		w.mu.Lock()
		count[site]++
		park := count[site]%n == 0 && budget > 0
		var yp *yieldPark
		if park {
			budget--
			yp = &yieldPark{site: site, ch: make(chan struct{})}
			w.yielded = append(w.yielded, yp)
			// canonical order (at most one goroutine can sit at a given site here)
			sort.Slice(w.yielded, func(i, j int) bool { return w.yielded[i].site < w.yielded[j].site })
			w.e.ParkBegin(true)
		}
		w.mu.Unlock()
		if park {
			w.e.Probe("yield-parked")
			if site == "copier.notify" {
				w.e.Probe("copier-at-notify")
			}
			<-yp.ch
		}
	}
}

// task runs f on its own goroutine and requires it to return by the next quiescent point.
func (w *cnWorld) task(name string, f func()) bool {
	done := make(chan struct{})
	w.e.forceDump = true
	go func() { f(); close(done) }()
	w.e.Quiesce()
	w.e.forceDump = false
	select {
	case <-done:
		return true
	default:
		w.e.Fail("C14/call-blocked/"+name, "%s did not return", name)
		return false
	}
}

// build creates the connection and plans the traffic.
func c14Build(e *Env, sweep bool, w *cnWorld) *cnWorld {
	t := e.T
	w.sc = newSimConn(e, "c0", drawAddr(t, 3868), drawAddr(t, 40000))
	if t.Chance(1, 4) {
		w.sc.MaxRead = t.Range(1, 200)
	}
	mux := diam.NewServeMux()
	mux.HandleFunc("ALL", w.handler)
	var h diam.Handler = mux
	if !sweep && t.Chance(1, 3) {
		// an earlier error report (of some other connection on this mux) that nobody has collected
		mux.Error(&diam.ErrorReport{Error: fmt.Errorf("sim: an earlier report nobody collected")})
		e.Act("error-report-slot-occupied", "")
		e.Probe("error-report-slot-occupied")
	}
	if t.Chance(1, 3) {
		// an application handler that also implements ErrorReporter and asks for
		// CloseNotify when it is told about a connection error
		h = cnReporter{mux, w}
		e.Act("error-reporter-requests-cn", "")
	}
	served := t.Chance(1, 3)
	if served {
		w.lis = newSimListener(e)
		srv := &diam.Server{Handler: h, Dict: simDict()}
		go srv.Serve(w.lis)
		w.lis.Connect(w.sc)
	} else {
		c, err := diam.NewConn(w.sc, "sim", h, simDict())
		if err != nil {
			e.Harness("NewConn: %v", err)
		}
		w.conn = c
	}
	n := t.Range(1, 6)
	if sweep {
		n = 3
	}
	w.term = []string{"peer-eof", "rst", "undecodable", "local-close"}[t.Draw(4)]
	for k := 0; k < n; k++ {
		size := []int{0, 0, 100, 900, 1100, 3000}[t.Draw(6)]
		if sweep {
			size = 0
		}
		rm := RefMsg{Cmd: 900, Flags: 0x80, HbH: uint32(k + 1), E2E: uint32(k + 1), AVPs: []RefAVP{{Code: avpSimOctets, Data: marker(0, k, size, byte(k))}}}
		m := &cnMsg{bytes: rm.Bytes(), start: len(w.stream)}
		if !sweep {
			m.cn = t.Chance(1, 4)
			m.park = t.Chance(1, 3)
			m.close = t.Chance(1, 25)
			m.answer = t.Chance(1, 3)
			if m.answer && t.Chance(1, 2) {
				m.wfault = []string{"temp", "plain", "perm"}[t.Draw(3)]
				m.wafter = t.Range(0, 30)
			}
		}
		w.msgs = append(w.msgs, m)
		w.stream = append(w.stream, m.bytes...)
	}
	w.nValid = n
	return w
}

// appendUndecodable adds the undecodable message and its trailing data to the stream.
func (w *cnWorld) appendUndecodable(t *Tape, big bool) {
	_, b := genMalformed(t, 0, len(w.msgs))
	extra := 0
	if big {
		extra = t.Range(4000, 6000)
	} else if t.Chance(1, 2) {
		extra = t.Range(0, 300)
	}
	for len(b) < extra {
		tr := RefMsg{Cmd: 901, Flags: 0x80, HbH: 10, E2E: 10, AVPs: []RefAVP{{Code: avpSimOctets, Data: marker(0, 1000+len(b), 200, 1)}}}.Bytes()
		b = append(b, tr...)
	}
	w.msgs = append(w.msgs, &cnMsg{bytes: b, start: len(w.stream), bad: true})
	w.stream = append(w.stream, b...)
}

func c14Run(e *Env, script []int) {
	t := e.T
	e.maxStep = 120
	// yield sites: the hook is installed before any library goroutine exists
	every := map[string]int{}
	for _, s := range []string{"sr.read.enter", "sr.read.unlocked", "serve.read.ok", "serve.handler.done", "copier.notify"} {
		if script != nil || t.Chance(2, 5) {
			every[s] = t.Range(1, 3)
		}
	}
	w := &cnWorld{e: e, forcedCN: map[int]bool{}}
	w.installYields(every, 10)
	defer func() { diam.VerifYield = nil }()
	c14Build(e, script != nil, w)
	if script != nil {
		w.term = []string{"peer-eof", "rst", "undecodable", "local-close"}[script[0]]
		script = script[1:]
	}
	if w.term == "undecodable" {
		w.appendUndecodable(t, script == nil && t.Chance(1, 2))
	}
	e.Probe("term:" + w.term)
	e.Act("plan", "msgs=%d term=%s yields=%d", len(w.msgs), w.term, len(every))
	w.quiesceCheck()

	step := 0
	for e.Step() && !e.Failed() {
		type act struct {
			kind string
			w    int
		}
		var acts []act
		if w.sent < len(w.stream) && !w.sc.Closed() && !w.termDone {
			acts = append(acts, act{"deliver-msg", 6}, act{"deliver-byte", 2}, act{"deliver-big", 2})
		}
		w.mu.Lock()
		np, ny := len(w.parked), len(w.yielded)
		hasConn := w.conn != nil
		w.mu.Unlock()
		if np > 0 {
			acts = append(acts, act{"release", 5})
		}
		if ny > 0 {
			acts = append(acts, act{"unyield", 6})
		}
		if hasConn {
			acts = append(acts, act{"cn-task", 3})
		}
		// mark the next unhandled message so that its handler asks for CloseNotify
		acts = append(acts, act{"cn-handler-next", 1})
		if !w.termDone {
			wt := 1
			if w.sent >= len(w.stream) {
				wt = 6
			}
			if w.term == "rst" || w.term == "local-close" {
				wt += 1
			}
			if w.term != "local-close" || hasConn {
				acts = append(acts, act{"terminate", wt})
			}
		}
		if os.Getenv("VERIF_DEBUG_ACTS") != "" {
			ks := ""
			for _, x := range acts {
				ks += x.kind + " "
			}
			e.Obs("enabled: %s parked=%d yielded=%d", ks, np, ny)
		}
		var a act
		if script != nil {
			if step >= len(script) {
				break
			}
			want := []string{"deliver-msg", "deliver-byte", "cn-handler-next", "cn-task", "terminate", "release", "unyield"}[script[step]]
			step++
			found := false
			for _, x := range acts {
				if x.kind == want {
					a, found = x, true
				}
			}
			if !found {
				continue // not enabled: the sequence degenerates to a shorter one
			}
		} else {
			if w.termDone && np == 0 && ny == 0 && t.Chance(2, 3) {
				break
			}
			ws := make([]int, len(acts))
			for i, x := range acts {
				ws[i] = x.w
			}
			if len(acts) > 2 {
				e.NonTrivial()
			}
			a = acts[t.Pick(ws...)]
		}
		switch a.kind {
		case "deliver-msg", "deliver-byte", "deliver-big":
			rem := len(w.stream) - w.sent
			k := 1
			if a.kind == "deliver-msg" {
				k = rem
				for _, m := range w.msgs {
					if m.start+len(m.bytes) > w.sent {
						k = m.start + len(m.bytes) - w.sent
						break
					}
				}
			} else if a.kind == "deliver-big" {
				k = rem
			}
			if k > rem {
				k = rem
			}
			w.sc.Deliver(w.stream[w.sent : w.sent+k])
			w.sent += k
			e.Act(a.kind, "%d (%d/%d)", k, w.sent, len(w.stream))
		case "release":
			w.mu.Lock()
			g := w.parked[0]
			w.parked = w.parked[1:]
			e.ParkEnd(true)
			w.mu.Unlock()
			e.Act("release", "")
			close(g)
		case "unyield":
			w.mu.Lock()
			i := 0
			if script == nil {
				i = t.Draw(len(w.yielded))
			}
			yp := w.yielded[i]
			w.yielded = append(w.yielded[:i], w.yielded[i+1:]...)
			e.ParkEnd(true)
			w.mu.Unlock()
			e.Act("unyield", "%s", yp.site)
			close(yp.ch)
		case "cn-task":
			kind := "from-task"
			if w.terminated() {
				kind = "after-termination"
			} else if w.sc.ReaderParked() {
				kind = "while-reader-blocked"
			}
			e.Act("cn-task", "%s", kind)
			var ch <-chan struct{}
			if !w.task("CloseNotify", func() { ch = w.conn.(diam.CloseNotifier).CloseNotify() }) {
				break
			}
			w.record(ch, kind)
		case "cn-handler-next":
			w.mu.Lock()
			w.forcedCN[len(w.entered)] = true
			w.mu.Unlock()
			e.Act("cn-handler-next", "")
		case "terminate":
			w.terminate()
		}
		if !w.quiesceCheck() {
			break
		}
	}
	w.drain()
}

func (w *cnWorld) terminate() {
	e, t := w.e, w.e.T
	w.termDone = true
	switch w.term {
	case "peer-eof":
		if w.sent < len(w.stream) && t.Chance(1, 2) {
			// the last bytes and EOF arrive in one Read
			w.sc.Deliver(w.stream[w.sent:])
			w.sent = len(w.stream)
			w.sc.EndReadWithData(io.EOF)
			e.Act("terminate", "peer-eof with data")
		} else {
			if w.sent < len(w.stream) {
				w.sc.Deliver(w.stream[w.sent:])
				w.sent = len(w.stream)
			}
			w.sc.EndRead(io.EOF, false)
			e.Act("terminate", "peer-eof")
		}
		e.Fault("peer-eof")
	case "rst":
		if t.Chance(1, 3) {
			// a read error that calls itself temporary: a connection whose read failed has
			// ended all the same (the reader does not go on after an error)
			w.sc.EndRead(&simNetErr{msg: "sim: read: interrupted", temp: true}, true)
			e.Fault("temporary-read-error")
			e.Probe("temporary-read-error")
		} else {
			w.sc.EndRead(errSimReset, true)
			e.Fault("rst")
		}
		e.Act("terminate", "rst")
	case "undecodable":
		// the stream carries the undecodable item: make sure it arrives, then the peer hangs up
		if w.sent < len(w.stream) {
			w.sc.Deliver(w.stream[w.sent:])
			w.sent = len(w.stream)
		}
		e.Fault("undecodable")
		e.Act("terminate", "undecodable + %d trailing", len(w.msgs[len(w.msgs)-1].bytes))
	case "local-close":
		w.mu.Lock()
		w.localClosed = true
		w.mu.Unlock()
		e.Fault("local-close")
		e.Act("terminate", "local Close")
		w.task("Close", func() { w.conn.Close() })
	}
}

// quiesceCheck settles the system and checks invariant (i): closed => terminated.
func (w *cnWorld) quiesceCheck() bool {
	e := w.e
	e.Quiesce()
	if e.Failed() {
		return false
	}
	term := w.terminated()
	w.mu.Lock()
	defer w.mu.Unlock()
	for _, c := range w.chans {
		if isClosed(c.ch) && !term {
			e.Fail("C14/closed-before-termination/req="+c.kind, "a CloseNotify channel (requested %s) is closed while the connection is alive: transport not closed, no end condition read", c.kind)
			return false
		}
	}
	if strings.Contains(e.LogText(), "panic serving") {
		e.Fail("C14/panic-on-connection", "the connection's goroutine panicked: %s", short(e.LogText(), 300))
		return false
	}
	return w.checkOrder(false)
}

func (w *cnWorld) checkOrder(final bool) bool {
	e := w.e
	for i, s := range w.entered {
		if s >= 1000 {
			e.Fail("C14/processed-after-undecodable", "data after the undecodable message was dispatched")
			return false
		}
		if s != i {
			e.Fail("C14/messages-lost-duplicated-or-reordered", "handlers saw messages %v, the peer sent 0..%d in order", w.entered, w.nValid-1)
			return false
		}
	}
	return true
}

func (w *cnWorld) drain() {
	e := w.e
	if e.Failed() {
		w.teardown()
		return
	}
	w.yieldsOff.Store(true)
	w.closing.Store(true)
	if !w.termDone {
		if w.term == "local-close" {
			w.mu.Lock()
			has := w.conn != nil
			w.mu.Unlock()
			if !has {
				w.term = "peer-eof"
			}
		}
		w.terminate()
	}
	for round := 0; round < 40; round++ {
		w.mu.Lock()
		yl := append([]*yieldPark{}, w.yielded...)
		w.yielded = nil
		pk := append([]chan struct{}{}, w.parked...)
		w.parked = nil
		for range yl {
			e.ParkEnd(true)
		}
		for range pk {
			e.ParkEnd(true)
		}
		w.mu.Unlock()
		for _, yp := range yl {
			close(yp.ch)
		}
		for _, g := range pk {
			close(g)
		}
		if !w.quiesceCheck() {
			w.teardown()
			return
		}
		if len(yl) == 0 && len(pk) == 0 {
			break
		}
	}
	if w.term == "undecodable" && !w.sc.Closed() {
		// every valid message was handled and the undecodable one must have ended the connection
		e.Fail("C14/undecodable-not-terminating", "an undecodable message was delivered and the transport is still open")
		w.teardown()
		return
	}
	if !w.terminated() {
		w.mu.Lock()
		cn := w.cnBeforeTerm
		w.mu.Unlock()
		if !cn {
			e.Harness("C14: the connection did not terminate in the drain phase (term=%s)", w.term)
		}
		e.Fail("C14/reader-stuck-after-closenotify/term="+w.term, "CloseNotify was requested; later the peer ended the connection (%s) and, with everything released, the library neither read the end condition nor closed the transport: inbound data is no longer consumed", w.term)
		w.teardown()
		return
	}
	// (ii) every channel ever obtained is closed; one requested now is closed too
	w.mu.Lock()
	conn := w.conn
	w.mu.Unlock()
	if conn != nil {
		var ch <-chan struct{}
		if w.task("CloseNotify", func() { ch = conn.(diam.CloseNotifier).CloseNotify() }) {
			w.record(ch, "after-termination")
			e.Quiesce()
		}
	}
	w.mu.Lock()
	kinds := map[string]bool{}
	open := 0
	for _, c := range w.chans {
		if !isClosed(c.ch) {
			open++
			kinds[c.kind] = true
		}
	}
	entered := append([]int{}, w.entered...)
	localClosed := w.localClosed
	w.mu.Unlock()
	if open > 0 {
		ks := []string{}
		for k := range kinds {
			ks = append(ks, k)
		}
		sort.Strings(ks)
		e.Fail(fmt.Sprintf("C14/never-closed/req=%s/term=%s", strings.Join(ks, "+"), w.term),
			"the connection has terminated (%s) and %d CloseNotify channel(s) requested %v are still open after everything was released", w.term, open, ks)
		w.teardown()
		return
	}
	// (iv) no loss: a peer EOF or an undecodable message never overtakes the data before it
	if (w.term == "peer-eof" || w.term == "undecodable") && !localClosed {
		if len(entered) != w.nValid {
			e.Fail("C14/messages-lost-duplicated-or-reordered", "the peer sent %d valid messages before the connection ended (%s), handlers saw %v", w.nValid, w.term, entered)
			w.teardown()
			return
		}
	}
	w.teardown()
	// (v) no goroutine of the library is left
	if left := e.LibGoroutines(); len(left) > 0 && !e.Failed() {
		what := "other"
		switch {
		case strings.Contains(left[0], "closeNotify.func"):
			what = "copier"
		case strings.Contains(left[0], "(*conn).serve"):
			what = "serve"
		case strings.Contains(left[0], "watchdog"):
			what = "watchdog"
		}
		e.Fail("C14/goroutine-leak/"+what+"/term="+w.term, "%d library goroutine(s) remain after the connection terminated and everything was released:\n%s", len(left), short(left[0], 900))
	}
}

func (w *cnWorld) teardown() {
	e := w.e
	w.yieldsOff.Store(true)
	w.closing.Store(true)
	w.sc.EndRead(io.EOF, false)
	if w.lis != nil {
		w.lis.Close()
	}
	for round := 0; round < 10; round++ {
		w.mu.Lock()
		yl := append([]*yieldPark{}, w.yielded...)
		w.yielded = nil
		pk := append([]chan struct{}{}, w.parked...)
		w.parked = nil
		for range yl {
			e.ParkEnd(true)
		}
		for range pk {
			e.ParkEnd(true)
		}
		w.mu.Unlock()
		for _, yp := range yl {
			close(yp.ch)
		}
		for _, g := range pk {
			close(g)
		}
		e.Quiesce()
		if len(yl) == 0 && len(pk) == 0 {
			break
		}
	}
}

// ---------------------------------------------------------------- sweep

const c14Kinds = 7
const c14MaxLen = 6

func c14SweepN(thorough bool) int {
	n := 0
	p := 1
	for l := 0; l <= c14MaxLen; l++ {
		n += p
		p *= c14Kinds
	}
	return 4 * n
}

func c14Sweep(e *Env) {
	k := e.Case
	term := k % 4
	k /= 4
	// decode k into a sequence of length <= c14MaxLen
	l := 0
	p := 1
	for k >= p {
		k -= p
		p *= c14Kinds
		l++
	}
	seq := make([]int, l+1)
	seq[0] = term
	for i := 1; i <= l; i++ {
		seq[i] = k % c14Kinds
		k /= c14Kinds
	}
	e.NonTrivial()
	c14Run(e, seq)
}

// c14ReadTimeout: Server.ReadTimeout bounds the wait for (and the reading of) a request. With
// CloseNotify requested, the library reads the transport in the background; a handler that runs
// for longer than the timeout must not make that background read give up on a live connection:
// the channel stays open, the transport stays open, later requests are served.
func c14ReadTimeout(e *Env) {
	t := e.T
	e.TrustWait = false
	T := []time.Duration{100 * time.Millisecond, 2 * time.Second, 30 * time.Second}[t.Draw(3)]
	lis := newSimListener(e)
	mux := diam.NewServeMux()
	var mu sync.Mutex
	var entered []string
	var cn <-chan struct{}
	var gate chan struct{}
	cnAt := t.Draw(2) // which message's handler asks for CloseNotify
	mux.HandleFunc("ALL", func(c diam.Conn, m *diam.Message) {
		tag := string(m.AVP[0].Data.Serialize())
		mu.Lock()
		entered = append(entered, tag)
		if tag == fmt.Sprintf("m%d", cnAt) {
			cn = c.(diam.CloseNotifier).CloseNotify()
		}
		var g chan struct{}
		if tag == "m1" {
			g = make(chan struct{})
			gate = g
			e.ParkBegin(true)
		}
		mu.Unlock()
		if g != nil {
			<-g
		}
		a := m.Answer(2001)
		a.WriteTo(c)
	})
	srv := &diam.Server{Handler: mux, Dict: simDict(), ReadTimeout: T}
	go srv.Serve(lis)
	sc := newSimConn(e, "c0", drawAddr(t, 3868), drawAddr(t, 44001))
	lis.Connect(sc)
	req := func(tag string, hbh uint32) []byte {
		return RefMsg{Cmd: 900, Flags: 0x80, HbH: hbh, E2E: hbh, AVPs: []RefAVP{{Code: avpSimOctets, Data: []byte(tag)}}}.Bytes()
	}
	release := func() {
		mu.Lock()
		g := gate
		gate = nil
		mu.Unlock()
		if g != nil {
			e.ParkEnd(true)
			close(g)
			e.Quiesce()
		}
	}
	defer func() {
		release()
		sc.EndRead(io.EOF, false)
		lis.Close()
		e.Quiesce()
	}()
	e.Quiesce()
	sc.Deliver(req("m0", 1))
	e.Quiesce()
	e.Advance(T / 4)
	e.Quiesce()
	together := t.Chance(1, 2) // m2 arrives in the same segment as m1
	if together {
		sc.Deliver(append(req("m1", 2), req("m2", 3)...))
	} else {
		sc.Deliver(req("m1", 2))
	}
	e.Quiesce()
	mu.Lock()
	parked, ch := gate != nil, cn
	mu.Unlock()
	if !parked || ch == nil {
		e.Fail("C14/messages-lost-duplicated-or-reordered", "two requests were sent within the read timeout; handlers saw %v", entered)
		return
	}
	// the handler of m1 takes its time: longer than ReadTimeout
	slow := []time.Duration{T + T/2, 3 * T}[t.Draw(2)]
	if !e.Quiesce() {
		e.Fail("C14/frozen/read-timeout", "a library goroutine waits on a lock while a handler runs")
		return
	}
	e.Advance(slow)
	e.Quiesce()
	e.Act("slow-handler", "T=%v handler ran %v, CloseNotify requested in m%d", T, slow, cnAt)
	e.Probe("handler-slower-than-read-timeout")
	e.NonTrivial()
	if isClosed(ch) || sc.Closed() {
		e.Fail("C14/closed-while-alive/read-timeout", "Server.ReadTimeout=%v, CloseNotify requested, a handler has been running for %v: the peer is alive and sent nothing wrong, yet the CloseNotify channel is closed=%v and the transport is closed=%v", T, slow, isClosed(ch), sc.Closed())
		return
	}
	release()
	if !together {
		sc.Deliver(req("m2", 3))
	}
	e.Quiesce()
	mu.Lock()
	got := strings.Join(entered, ",")
	mu.Unlock()
	if got != "m0,m1,m2" {
		e.Fail("C14/messages-lost-duplicated-or-reordered", "requesting CloseNotify must not lose inbound messages: the peer sent m0, m1, m2 (each within the read timeout of the previous answer); handlers saw %s", got)
	}
}
