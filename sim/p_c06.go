package dsim

import (
	"bytes"
	"fmt"
	"io"
	"runtime"
	"sync"

	"github.com/fiorix/go-diameter/v4/diam"
	"github.com/fiorix/go-diameter/v4/diam/datatype"
)

// C06 — a decoded message never changes after it has been returned.

func init() {
	register(&Property{
		ID: "C06", Level: "exploration",
		Rule: "each run opens 1-3 connections (real conn.serve) and 0-2 bare ReadMessage sources sharing the process-wide buffer pools; handlers retain every message and fingerprint it (header, String(), Serialize(), every leaf's bytes) at return; " +
			"the engine then draws a history of later messages with different content at the same offsets on the same / another connection / another goroutine, bodies on both sides of the 1 KiB pooled buffer, answers (writer pool) and forced GCs, re-fingerprinting every retained message after every step; " +
			"non-trivial = at least two messages with view-prone AVPs (Address, IPv4, IPv6, undefined code, grouped) were read after a retained one; distinct = hash of (sources, size classes, AVP-type classes, action kinds)",
		Real:    []string{"ReadMessage, readerBufferPool / readerBufferSlice, decodeAVPs, DecodeGrouped, datatype decoders", "conn.serve + bufio on each connection", "Message.Answer/WriteTo (writerBufferPool)"},
		Stubbed: []string{"transports: SimConn / SimReader", "peers: scripted with the reference encoder"},
		Assume:  []string{"one P per worker and GC off during a run make sync.Pool reuse deterministic; forced GCs are engine actions"},
		Scenarios: []*Scenario{
			{Name: "retain", Weight: 4, Bubble: true, Run: c06Retain},
			{Name: "sm-error-reports", Weight: 1, Bubble: true, Run: func(e *Env) { smaRun(e, "C06") }},
		},
		MustProbes: []string{"pooled-then-pooled", "retained-across-connection", "retained-across-goroutine", "boundary-1025-1044", "retained-forwarded", "unpadded-tail", "error-report-message-retained", "deep-nesting", "wrong-size-fixed-width", "unmarshal-into-reused-struct", "lookup-with-several-matches"},
	})
}

// c06Scratch is what an application might unmarshal each message into.
type c06Scratch struct {
	Oct  *diam.AVP                 `avp:"Sim-Octets"`
	Addr *diam.AVP                 `avp:"Sim-Address"`
	Grp  *diam.AVP                 `avp:"Sim-Group"`
	U8   *diam.AVP                 `avp:"Sim-UTF8"`
	U32  datatype.Unsigned32       `avp:"Sim-U32"`
	ID   datatype.DiameterIdentity `avp:"Sim-Identity"`
}

type retained struct {
	src   string
	m     *diam.Message
	fp    string
	index int
}

// fingerprint renders everything observable about a message.
func fingerprint(m *diam.Message) string {
	var sb bytes.Buffer
	fmt.Fprintf(&sb, "H%s|", m.Header)
	sb.WriteString(m.String())
	b, err := m.Serialize()
	fmt.Fprintf(&sb, "|S%x|%v|", b, err)
	var walk func(avps []*diam.AVP)
	walk = func(avps []*diam.AVP) {
		for _, a := range avps {
			fmt.Fprintf(&sb, "(%d,%#x,%d,%d:", a.Code, a.Flags, a.VendorID, a.Length)
			if g, ok := a.Data.(*diam.GroupedAVP); ok {
				walk(g.AVP)
			} else if a.Data != nil {
				fmt.Fprintf(&sb, "%x/%s", a.Data.Serialize(), a.Data.String())
			}
			sb.WriteString(")")
		}
	}
	walk(m.AVP)
	return sb.String()
}

// genC06Msg builds a message full of view-prone AVPs; fill decides the content.
func genC06Msg(t *Tape, e *Env, idx int, fill byte) []byte {
	cmd := simCmds[2+t.Draw(2)]
	m := RefMsg{Cmd: cmd.Code, App: cmd.App, Flags: 0x80, HbH: uint32(idx + 1), E2E: uint32(1000 + idx)}
	fb := func(n int, salt byte) []byte {
		b := make([]byte, n)
		for i := range b {
			b[i] = fill + salt + byte(i*3)
		}
		return b
	}
	leaf := func(kind int, salt byte) RefAVP {
		switch kind {
		case 0: // Address IPv4
			return RefAVP{Code: avpSimAddress, Data: append([]byte{0, 1}, fb(4, salt)...)}
		case 1: // Address IPv6
			return RefAVP{Code: avpSimAddress, Data: append([]byte{0, 2}, fb(16, salt)...)}
		case 2: // Address of another family (E.164 = 8)
			return RefAVP{Code: avpSimAddress, Data: append([]byte{0, 8}, fb(5+int(salt)%9, salt)...)}
		case 3:
			return RefAVP{Code: avpSimIPv4, Data: fb(4, salt)}
		case 4:
			// An AVP of dictionary type IPv6 cannot be decoded at all on this tree
			// (datatype.Decoder has no entry for it: a C17 matter, not claimed here),
			// so the IPv6-shaped view is exercised through Address family 2 instead.
			return RefAVP{Code: avpSimAddress, Data: append([]byte{0, 2}, fb(16, salt+1)...)}
		case 5: // undefined code
			return RefAVP{Code: 80000 + uint32(salt%3), Data: fb(3+int(salt)%20, salt)}
		case 6: // undefined vendor-specific code
			return RefAVP{Code: 81000, Flags: 0x80, Vendor: 4242, Data: fb(6+int(salt)%10, salt)}
		default:
			return RefAVP{Code: avpSimOctets, Data: fb(5+int(salt)%30, salt)}
		}
	}
	if t.Chance(1, 6) {
		// a grouped AVP nested deeper than any sensible limit, with a view-prone leaf at the bottom
		depth := t.Range(2, 12)
		g := leaf(t.Draw(8), 77)
		for d := 0; d < depth; d++ {
			g = RefAVP{Code: avpSimGroup, Group: []RefAVP{g}}
		}
		m.AVPs = append(m.AVPs, g)
		if depth >= 9 {
			e.Probe("deep-nesting")
		}
	}
	if t.Chance(1, 6) {
		// a fixed-width type carrying a payload of another size (decoded leniently)
		m.AVPs = append(m.AVPs, RefAVP{Code: avpSimU32, Data: fb(1+t.Draw(3), 31)})
		e.Probe("wrong-size-fixed-width")
	}
	n := t.Range(1, 6)
	for i := 0; i < n; i++ {
		k := t.Draw(9)
		if k == 8 {
			g := RefAVP{Code: avpSimGroup}
			gn := t.Range(1, 3)
			for j := 0; j < gn; j++ {
				g.Group = append(g.Group, leaf(t.Draw(8), byte(10*i+j)))
			}
			if t.Chance(1, 3) {
				g.Group = append(g.Group, RefAVP{Code: avpSimGroup, Group: []RefAVP{leaf(t.Draw(7), byte(i+40))}})
			}
			m.AVPs = append(m.AVPs, g)
		} else {
			m.AVPs = append(m.AVPs, leaf(k, byte(7*i)))
		}
	}
	// size: pad with an undefined-code AVP (itself view-prone) to reach a target
	cur := len(m.Bytes())
	var target int
	switch t.Pick(4, 3, 2, 2) {
	case 0:
		target = cur
	case 1:
		target = 1025 + 4*t.Draw(6) // total 1025..1044: body still fits the pooled buffer
		e.Probe("boundary-1025-1044")
	case 2:
		target = t.Range(300, 1000)
	default:
		target = t.Range(1100, 3000)
	}
	if target > cur+12 {
		pad := target - cur - 8
		pad -= (cur + 8 + pad) % 4
		if pad > 16 && t.Chance(1, 2) {
			// the filler sits inside a grouped AVP, which is then the last AVP of the message
			m.AVPs = append(m.AVPs, RefAVP{Code: avpSimGroup, Group: []RefAVP{{Code: 80007, Data: fb(pad-8, 99)}}})
			e.Probe("last-avp-grouped")
		} else if pad > 0 {
			m.AVPs = append(m.AVPs, RefAVP{Code: 80007, Data: fb(pad, 99)})
		}
	}
	if t.Chance(1, 5) {
		// last AVP with an odd-length payload and no trailing padding
		m.AVPs = append(m.AVPs, RefAVP{Code: 80009, Data: fb(1+2*int(fill%5), 55)})
		m.TrimPad = true
		e.Probe("unpadded-tail")
	}
	b := m.Bytes()
	e.Act(sizeClass(len(b)-20), "")
	return b
}

func c06Retain(e *Env) {
	t := e.T
	e.maxStep = 60
	e.TrustWait = true
	var mu sync.Mutex
	var kept []*retained
	keep := func(src string, m *diam.Message) {
		r := &retained{src: src, m: m, fp: fingerprint(m)}
		mu.Lock()
		r.index = len(kept)
		kept = append(kept, r)
		mu.Unlock()
	}
	nConn := t.Range(1, 3)
	type cstate struct {
		sc   *SimConn
		name string
		dc   diam.Conn
	}
	var conns []*cstate
	for i := 0; i < nConn; i++ {
		name := fmt.Sprintf("c%d", i)
		sc := newSimConn(e, name, drawAddr(t, 3868), drawAddr(t, 40000+i))
		mux := diam.NewServeMux()
		answer := t.Chance(1, 2)
		// the handler may parse every message into one scratch struct it reuses (the library
		// fills the struct; it must not write through it into an earlier message)
		useScratch := t.Chance(1, 2)
		lookups := t.Chance(1, 2)
		scratch := new(c06Scratch)
		mux.HandleFunc("ALL", func(c diam.Conn, m *diam.Message) {
			keep(name, m)
			if useScratch {
				if err := m.Unmarshal(scratch); err == nil {
					e.Probe("unmarshal-into-reused-struct")
				}
			}
			if lookups {
				// read-only use of the kept message: lookups must leave it as it is
				for _, code := range []uint32{avpSimAddress, avpSimOctets, avpSimGroup, 80000, avpSimIPv4} {
					if as, err := m.FindAVPs(code, 0); err == nil && len(as) >= 2 {
						e.Probe("lookup-with-several-matches")
					}
					m.FindAVP(code, 0)
				}
				m.FindAVPsWithPath([]interface{}{uint32(avpSimGroup), uint32(avpSimAddress)}, 0)
				_ = m.String()
				_ = m.Len()
			}
			if answer {
				a := m.Answer(2001)
				a.NewAVP(avpSimOctets, 0, 0, datatype.OctetString("ack-ack-ack-ack"))
				a.WriteTo(c)
			}
		})
		dc, err := diam.NewConn(sc, "sim", mux, simDict())
		if err != nil {
			e.Harness("NewConn: %v", err)
		}
		conns = append(conns, &cstate{sc, name, dc})
	}
	nBare := t.Draw(3)
	check := func(when string) bool {
		mu.Lock()
		defer mu.Unlock()
		for _, r := range kept {
			now := fingerprint(r.m)
			if now != r.fp {
				i := 0
				for i < len(now) && i < len(r.fp) && now[i] == r.fp[i] {
					i++
				}
				lo := i - 40
				if lo < 0 {
					lo = 0
				}
				e.Fail("C06/retained-message-changed", "message #%d retained from %s changed %s: was ...%s, now ...%s", r.index, r.src, when,
					short(r.fp[lo:min(len(r.fp), i+60)], 120), short(now[lo:min(len(now), i+60)], 120))
				return false
			}
		}
		return true
	}
	lastSrc := ""
	lastPooled := false
	viewMsgs := 0
	// sometimes a long-lived process: hundreds of messages follow the retained ones (whatever the
	// library recycles in rotation - free lists, slabs, rings - comes round again)
	long := t.Chance(1, 120)
	if long {
		e.maxStep = 700
		e.Probe("hundreds-of-later-messages")
	}
	for k := 0; e.Step(); k++ {
		if long && k >= 600 {
			break
		}
		if !long && k >= 4 && t.Chance(1, 6) {
			break
		}
		fill := byte(37*k + 11)
		b := genC06Msg(t, e, k, fill)
		pooled := len(b)-20 <= 1024
		if pooled && lastPooled {
			e.Probe("pooled-then-pooled")
		}
		lastPooled = pooled
		viewMsgs++
		src := t.Draw(nConn + nBare)
		var name string
		if src < nConn {
			c := conns[src]
			name = c.name
			// fragmentation is not the point here: one or two segments
			if t.Chance(1, 3) && len(b) > 30 {
				cut := t.Range(1, len(b)-1)
				c.sc.Deliver(b[:cut])
				e.Quiesce()
				c.sc.Deliver(b[cut:])
			} else {
				c.sc.Deliver(b)
			}
			e.Act("deliver", "%s %dB", name, len(b))
		} else {
			name = fmt.Sprintf("bare%d", src-nConn)
			done := make(chan struct{})
			go func() {
				defer close(done)
				m, err := diam.ReadMessage(&SimReader{data: b, endErr: io.EOF}, simDict())
				if err != nil {
					e.Fail("C06/harness-message-rejected", "the library rejected a generated message: %v", err)
					return
				}
				keep(name, m)
			}()
			e.Act("readmessage", "%s %dB", name, len(b))
			e.Probe("retained-across-goroutine")
		}
		if lastSrc != "" && lastSrc != name {
			e.Probe("retained-across-connection")
		}
		lastSrc = name
		e.Quiesce()
		if long && k >= 8 && k%50 != 0 {
			continue // (the long run looks at everything it holds every fifty messages)
		}
		if e.Failed() || !check(fmt.Sprintf("after message %d was read from %s", k, name)) {
			break
		}
		if t.Chance(1, 5) {
			runtime.GC()
			e.Fault("forced-gc")
			if !check("after a forced GC") {
				break
			}
		}
		if t.Chance(1, 4) {
			// a holder forwards a retained message on some connection (a proxy does this)
			mu.Lock()
			var fw *retained
			if len(kept) > 0 {
				fw = kept[t.Draw(len(kept))]
			}
			mu.Unlock()
			if fw != nil {
				to := conns[t.Draw(len(conns))]
				done := make(chan struct{})
				go func() { defer close(done); fw.m.WriteTo(to.dc) }()
				e.Quiesce()
				<-done
				e.Act("forward", "#%d via %s", fw.index, to.name)
				e.Probe("retained-forwarded")
				if !check(fmt.Sprintf("after retained message #%d was written to %s", fw.index, to.name)) {
					break
				}
			}
		}
		if t.Chance(1, 6) {
			// hand every retained message to another goroutine, which re-fingerprints
			done := make(chan bool, 1)
			go func() { done <- check("when inspected from another goroutine") }()
			e.Quiesce()
			if !<-done {
				break
			}
		}
	}
	if viewMsgs >= 3 {
		e.NonTrivial()
	}
	mu.Lock()
	nk := len(kept)
	mu.Unlock()
	if !e.Failed() && nk != viewMsgs {
		e.Fail("C06/harness-message-rejected", "%d messages were sent, %d reached a handler", viewMsgs, nk)
	}
	for _, c := range conns {
		c.sc.EndRead(io.EOF, false)
	}
	e.Quiesce()
	check("after the connections were closed")
}
