//go:debug randseednop=0
package dsim

import (
	"fmt"
	"os"
	"testing"
)

// The test binary is both orchestrator and worker (testing/synctest needs a
// *testing.T, hence a test binary rather than a plain program).
func TestMain(m *testing.M) {
	switch os.Getenv("VERIF_ROLE") {
	case "orch":
		os.Exit(orchMain())
	case "selftest":
		os.Exit(selftestMain())
	case "":
		fmt.Fprintln(os.Stderr, "dsim: run through /verif/check (VERIF_ROLE unset)")
		os.Exit(2)
	}
	os.Exit(m.Run())
}

var exitCode = 0

// TestWorker hosts worker and replay roles.
func TestWorker(t *testing.T) {
	theT = t
	switch os.Getenv("VERIF_ROLE") {
	case "worker":
		exitCode = workerMain()
	case "replay":
		exitCode = replayMain()
	default:
		t.Skip("no role")
	}
	if exitCode != 0 {
		os.Exit(exitCode)
	}
}
