package dsim

import (
	"fmt"
	"github.com/fiorix/go-diameter/v4/diam/sm"
	"net"

	"github.com/fiorix/go-diameter/v4/diam/dict"
	"os"
	"regexp"
	"sort"
	"strconv"
	"strings"
	"sync"
)

// Reference knowledge for the state-machine worlds: RFC 6733 numbers and the
// application table, which the harness derives itself from the XML embedded in
// /repo/diam/dict/default.go (dictionary data, not library logic).

const (
	cmdCE = 257
	cmdDW = 280
	cmdCC = 272
	cmdAC = 271
	cmdST = 275
	cmdUL = 316

	avpSessionID   = 263
	avpOriginHost  = 264
	avpOriginRealm = 296
	avpHostIP      = 257
	avpVendorID    = 266
	avpProductName = 269
	avpInbandSec   = 299
	avpAuthApp     = 258
	avpAcctApp     = 259
	avpVSApp       = 260
	avpSupVendor   = 265
	avpOriginState = 278
	avpFirmware    = 267
	avpFailedAVP   = 279
)

type appKey struct {
	id  uint32
	typ string
}

var (
	appTableOnce sync.Once
	appTable     map[appKey]bool
	appTableErr  error
)

// loadAppTable parses the dictionaries that dict.Default loads and returns the
// set of (application id, type) pairs they declare.
func loadAppTable() (map[appKey]bool, error) {
	appTableOnce.Do(func() {
		repo := os.Getenv("VERIF_REPO")
		if repo == "" {
			repo = "/repo"
		}
		b, err := os.ReadFile(repo + "/diam/dict/default.go")
		if err != nil {
			appTableErr = err
			return
		}
		src := string(b)
		// names of the XML variables in the load list
		listRe := regexp.MustCompile(`\{"[^"]*",\s*(\w+XML)\}`)
		varRe := regexp.MustCompile("(?s)var (\\w+XML) = `(.*?)`")
		appRe := regexp.MustCompile(`<application\s+id="(\d+)"(?:\s+type="(\w+)")?`)
		loaded := map[string]bool{}
		for _, m := range listRe.FindAllStringSubmatch(src, -1) {
			loaded[m[1]] = true
		}
		tab := map[appKey]bool{}
		for _, m := range varRe.FindAllStringSubmatch(src, -1) {
			if !loaded[m[1]] {
				continue
			}
			for _, a := range appRe.FindAllStringSubmatch(m[2], -1) {
				id, _ := strconv.ParseUint(a[1], 10, 32)
				tab[appKey{uint32(id), a[2]}] = true
			}
		}
		// the harness's own extra dictionary (see init below)
		tab[appKey{9001, "auth"}] = true
		tab[appKey{9001, "acct"}] = true
		tab[appKey{9002, "auth"}] = true
		if len(tab) < 3 {
			appTableErr = fmt.Errorf("application table: only %d entries parsed from default.go", len(tab))
			return
		}
		appTable = tab
	})
	return appTable, appTableErr
}

// A rare but legal configuration: one application id declared with both types.
const extraDictXML = `<?xml version="1.0" encoding="UTF-8"?>
<diameter>
  <application id="9001" type="auth" name="Sim Dual Auth"></application>
  <application id="9001" type="acct" name="Sim Dual Acct"></application>
</diameter>`

// A dictionary loaded after the process has already created a state machine.
const lateDictXML = `<?xml version="1.0" encoding="UTF-8"?>
<diameter>
  <application id="9002" type="auth" name="Sim Late Auth"></application>
</diameter>`

func init() {
	if err := dict.Default.Load(strings.NewReader(extraDictXML)); err != nil {
		panic("extra dictionary: " + err.Error())
	}
	// an application may create a state machine, load another dictionary later and create
	// further state machines: those know the applications of both
	_ = sm.New(&sm.Settings{OriginHost: "early.dsim.example", OriginRealm: "dsim.example", VendorID: 13, ProductName: "early"})
	if err := dict.Default.Load(strings.NewReader(lateDictXML)); err != nil {
		panic("late dictionary: " + err.Error())
	}
}

func refSupports(id uint32, typ string) bool {
	tab, _ := loadAppTable()
	return tab[appKey{id, typ}]
}

// ---------------------------------------------------------------- CER spec

type appEntry struct {
	kind        string // "acct", "auth", "vs-acct", "vs-auth"
	id          uint32
	vendorFirst bool // Vendor-Id before the application id inside the group
	// a vendor-specific group may name a second application id (RFC 3588 style groups)
	typ2 string // "", "auth" or "acct"
	id2  uint32
}

// flat lists the (type, id) pairs the entries name, one per element.
func (s cerSpec) flat() []appEntry {
	var out []appEntry
	for _, en := range s.entries {
		out = append(out, appEntry{kind: en.kind, id: en.id})
		if en.typ2 != "" {
			out = append(out, appEntry{kind: "vs-" + en.typ2, id: en.id2})
		}
	}
	return out
}

type cerSpec struct {
	host, realm bool
	inband      int // 0 absent, 1 = value 0, 2 = non-zero
	entries     []appEntry
	hbh, e2e    uint32
	flags       byte
	stateID     bool
}

func (e appEntry) typ() string {
	if strings.HasSuffix(e.kind, "acct") {
		return "acct"
	}
	return "auth"
}

// sharedIDs is the reference set of application ids the CER shares with the local dictionary.
func (s cerSpec) sharedIDs() []uint32 {
	set := map[uint32]bool{}
	for _, en := range s.flat() {
		if en.id == 0xffffffff || refSupports(en.id, en.typ()) {
			set[en.id] = true
		}
	}
	var out []uint32
	for id := range set {
		out = append(out, id)
	}
	sort.Slice(out, func(i, j int) bool { return out[i] < out[j] })
	return out
}

// sharedApps is the typed version of sharedIDs: (id, type) pairs the CER names and the dictionary supports.
func (s cerSpec) sharedApps() []appKey {
	set := map[appKey]bool{}
	for _, en := range s.flat() {
		if en.id != 0xffffffff && refSupports(en.id, en.typ()) {
			set[appKey{en.id, en.typ()}] = true
		}
	}
	var out []appKey
	for k := range set {
		out = append(out, k)
	}
	sort.Slice(out, func(i, j int) bool {
		if out[i].id != out[j].id {
			return out[i].id < out[j].id
		}
		return out[i].typ < out[j].typ
	})
	return out
}

func (s cerSpec) accept() bool {
	return s.host && s.realm && s.inband != 2 && len(s.sharedIDs()) > 0
}

// causes returns the failure result codes that apply to the CER.
func (s cerSpec) causes() map[uint32]bool {
	c := map[uint32]bool{}
	if !s.host || !s.realm {
		c[5012] = true
	}
	if s.inband == 2 {
		c[5017] = true
	}
	if len(s.sharedIDs()) == 0 {
		c[5010] = true
	}
	return c
}

func identAVPs(host, realm string, hasHost, hasRealm bool) []RefAVP {
	var a []RefAVP
	if hasHost {
		a = append(a, RefAVP{Code: avpOriginHost, Flags: 0x40, Data: []byte(host)})
	}
	if hasRealm {
		a = append(a, RefAVP{Code: avpOriginRealm, Flags: 0x40, Data: []byte(realm)})
	}
	return a
}

func addrAVP(ip net.IP) RefAVP {
	if v4 := ip.To4(); v4 != nil {
		return RefAVP{Code: avpHostIP, Flags: 0x40, Data: append([]byte{0, 1}, v4...)}
	}
	return RefAVP{Code: avpHostIP, Flags: 0x40, Data: append([]byte{0, 2}, ip.To16()...)}
}

func (e appEntry) avp() RefAVP {
	code := uint32(avpAuthApp)
	if e.typ() == "acct" {
		code = avpAcctApp
	}
	inner := RefAVP{Code: code, Flags: 0x40, Data: u32(e.id)}
	if strings.HasPrefix(e.kind, "vs-") {
		vid := RefAVP{Code: avpVendorID, Flags: 0x40, Data: u32(10415)}
		g := RefAVP{Code: avpVSApp, Flags: 0x40}
		apps := []RefAVP{inner}
		if e.typ2 != "" {
			c2 := uint32(avpAuthApp)
			if e.typ2 == "acct" {
				c2 = avpAcctApp
			}
			apps = append(apps, RefAVP{Code: c2, Flags: 0x40, Data: u32(e.id2)})
		}
		if e.vendorFirst {
			g.Group = append([]RefAVP{vid}, apps...)
		} else {
			g.Group = append(apps, vid)
		}
		return g
	}
	return inner
}

// Bytes encodes the CER.
func (s cerSpec) msg(host, realm string) RefMsg {
	m := RefMsg{Cmd: cmdCE, App: 0, Flags: s.flags | 0x80, HbH: s.hbh, E2E: s.e2e}
	m.AVPs = append(m.AVPs, identAVPs(host, realm, s.host, s.realm)...)
	m.AVPs = append(m.AVPs, addrAVP(net.IPv4(10, 9, 8, 7)))
	m.AVPs = append(m.AVPs, RefAVP{Code: avpVendorID, Flags: 0x40, Data: u32(10415)})
	m.AVPs = append(m.AVPs, RefAVP{Code: avpProductName, Data: []byte("peer")})
	if s.stateID {
		m.AVPs = append(m.AVPs, RefAVP{Code: avpOriginState, Flags: 0x40, Data: u32(424242)})
	}
	switch s.inband {
	case 1:
		m.AVPs = append(m.AVPs, RefAVP{Code: avpInbandSec, Flags: 0x40, Data: u32(0)})
	case 2:
		m.AVPs = append(m.AVPs, RefAVP{Code: avpInbandSec, Flags: 0x40, Data: u32(1)})
	}
	for _, en := range s.entries {
		m.AVPs = append(m.AVPs, en.avp())
	}
	return m
}

// id classes for generated entries
var (
	idsAuthOK  = []uint32{4, 1, 16777251, 9001, 9002}
	idsAcctOK  = []uint32{3, 9001}
	idsUnknown = []uint32{999, 16777000, 77}
)

// drawEntry draws one application entry over the classes of the quantifier.
func drawEntry(t *Tape) appEntry {
	kind := []string{"auth", "acct", "vs-auth", "vs-acct"}[t.Draw(4)]
	en := appEntry{kind: kind, vendorFirst: t.Chance(1, 2)}
	en.id = entryID(en.typ(), t.Draw(4), t.Draw(5))
	if strings.HasPrefix(kind, "vs-") && t.Chance(1, 4) {
		en.typ2 = []string{"auth", "acct"}[t.Draw(2)]
		en.id2 = entryID(en.typ2, t.Draw(4), t.Draw(5))
	}
	return en
}

// entryID maps (type, class, pick) to an id: class 0 supported with this type,
// 1 unsupported, 2 supported but with the other type, 3 relay.
func entryID(typ string, class, pick int) uint32 {
	switch class {
	case 0:
		if typ == "auth" {
			return idsAuthOK[pick%len(idsAuthOK)]
		}
		return idsAcctOK[pick%len(idsAcctOK)]
	case 1:
		return idsUnknown[pick%len(idsUnknown)]
	case 2:
		if typ == "auth" {
			return idsAcctOK[pick%len(idsAcctOK)]
		}
		return idsAuthOK[pick%len(idsAuthOK)]
	default:
		return 0xffffffff
	}
}

func be32(b []byte) uint32 {
	if len(b) < 4 {
		return 0
	}
	return uint32(b[0])<<24 | uint32(b[1])<<16 | uint32(b[2])<<8 | uint32(b[3])
}

// advertisedApps extracts (id, type) pairs a CER/CEA advertises, top level and inside groups.
func advertisedApps(m RefMsg) map[appKey]bool {
	out := map[appKey]bool{}
	var walk func(avps []RefAVP)
	walk = func(avps []RefAVP) {
		for _, a := range avps {
			switch a.Code {
			case avpAuthApp:
				out[appKey{be32(a.Data), "auth"}] = true
			case avpAcctApp:
				out[appKey{be32(a.Data), "acct"}] = true
			case avpVSApp:
				inner, _ := refParseAVPs(a.Data)
				walk(inner)
			}
		}
	}
	walk(m.AVPs)
	return out
}

// hostIPs returns the addresses carried in Host-IP-Address AVPs.
func hostIPs(m RefMsg) []string {
	var out []string
	for _, a := range m.findAll(avpHostIP) {
		if len(a.Data) == 6 && a.Data[1] == 1 {
			out = append(out, net.IP(a.Data[2:]).String())
		} else if len(a.Data) == 18 && a.Data[1] == 2 {
			out = append(out, net.IP(a.Data[2:]).String())
		} else {
			out = append(out, fmt.Sprintf("raw:%x", a.Data))
		}
	}
	sort.Strings(out)
	return out
}
