package dsim

import (
	"encoding/json"
	"fmt"
	"os"
	"path/filepath"
	"runtime"
	"time"
)

func writeEvidence(p *Property, tier string, seed uint64, tot *WorkerOut, distinct int, wall float64, nviol int, nw int, vsummary string, harness []string) {
	samples := []interface{}{}
	for i, s := range tot.Samples {
		if i >= 6 {
			break
		}
		var v interface{}
		json.Unmarshal(s, &v)
		samples = append(samples, v)
	}
	if len(samples) == 0 {
		samples = append(samples, "no sample recorded (no run completed)")
	}
	exhaustive := false
	sweeps := map[string]interface{}{}
	for _, k := range sortedScen(tot.Scen) {
		st := tot.Scen[k]
		if st.SweepN > 0 {
			done := st.SweepDone == st.SweepN
			sweeps[k] = map[string]interface{}{"cases": st.SweepN, "done": st.SweepDone, "complete": done, "enumerates_stated_space": st.Exhaust}
			if sc := p.scenario(k); sc != nil && sc.SweepNote != "" {
				sweeps[k].(map[string]interface{})["space"] = sc.SweepNote
			}
		}
	}
	scen := map[string]int{}
	for _, k := range sortedScen(tot.Scen) {
		scen[k] = tot.Scen[k].Runs
	}
	hours := wall / 3600
	if hours <= 0 {
		hours = 1e-9
	}
	cov := map[string]interface{}{
		"evaluations":         tot.Runs,
		"distinct_nontrivial": distinct,
		"rule":                p.Rule,
		"samples":             samples,
		"exhaustive":          exhaustive,
		"runs_per_hour":       int(float64(tot.Runs) / hours),
		"seeds_per_hour":      int(float64(tot.SeededRuns) / hours),
		"seeded_runs":         tot.SeededRuns,
		"simulated_time":      time.Duration(tot.SimNs).String(),
		"simulated_time_ns":   tot.SimNs,
		"faults_fired":        tot.Faults,
		"reach_probes":        tot.Probes,
		"runs_per_scenario":   scen,
		"systematic_sweeps":   sweeps,
		"distinct_measure":    "distinct FNV-64 hashes of the per-run sequence of (scenario, engine action kinds, fired fault kinds), counted only over runs in which a fault fired or the engine had a real choice between actors",
		"components_real":     p.Real,
		"components_stubbed":  p.Stubbed,
		"workers":             nw,
		"worker_config":       "one OS process per worker, GOMAXPROCS=1, GODEBUG=asyncpreemptoff=1, GC off during a run, pools emptied between runs",
		"toolchain":           runtime.Version() + " -tags verif, testing/synctest fake clock",
		"violations_summary":  vsummary,
		"runs_ending_with_blocked_goroutines": tot.Leftover,
	}
	if len(harness) > 0 {
		cov["harness_errors"] = harness
	}
	ev := map[string]interface{}{
		"property_id": p.ID,
		"tier":        tier,
		"seed":        int64(seed & 0x7fffffffffffffff),
		"level":       p.Level,
		"coverage":    cov,
		"assumptions": p.Assume,
		"wall_s":      wall,
		"violations":  nviol,
	}
	js, _ := json.MarshalIndent(ev, "", " ")
	dir := filepath.Join(verifRoot, "evidence")
	os.MkdirAll(dir, 0755)
	if err := os.WriteFile(filepath.Join(dir, p.ID+".json"), append(js, '\n'), 0644); err != nil {
		fmt.Fprintln(os.Stderr, "evidence:", err)
	}
}
