package dsim

import (
	"encoding/json"
	"fmt"
	"os"
	"runtime"
	"sort"
	"strconv"
	"strings"
	"syscall"
	"time"
)

// ViolationRec is a violation as reported by a worker.
type ViolationRec struct {
	Desc     RunDesc   `json:"desc"` // Desc.Tape is the minimised tape
	Sig      string    `json:"sig"`
	Detail   string    `json:"detail"`
	OrigLen  int       `json:"orig_tape_len"`
	MinLen   int       `json:"min_tape_len"`
	ShrinkN  int       `json:"shrink_candidates"`
	Trace    []string  `json:"trace"`
	RunIndex uint64    `json:"run_index"`
	History  *HistSpec `json:"history,omitempty"`
	Worker   int       `json:"-"` // set by the orchestrator when it merges
}

// ScenStat aggregates per scenario.
type ScenStat struct {
	Runs      int  `json:"runs"`
	SweepN    int  `json:"sweep_cases,omitempty"`
	SweepDone int  `json:"sweep_done,omitempty"`
	Exhaust   bool `json:"exhaustive,omitempty"`
}

// WorkerOut is the JSON a worker writes when it finishes.
type WorkerOut struct {
	Prop       string               `json:"property"`
	WIdx       int                  `json:"widx"`
	Runs       int                  `json:"runs"`
	SeededRuns int                  `json:"seeded_runs"`
	Scen       map[string]*ScenStat `json:"scenarios"`
	Hashes     []uint64             `json:"hashes"` // distinct non-trivial trace hashes
	Faults     map[string]int       `json:"faults"`
	Probes     map[string]int       `json:"probes"`
	SimNs      int64                `json:"sim_ns"`
	Samples    []json.RawMessage    `json:"samples"`
	Viol       []ViolationRec       `json:"violations"`
	Harness    []string             `json:"harness_errors"`
	Leftover   int                  `json:"leftover_goroutine_runs"`
	WallMs     int64                `json:"wall_ms"`
	LogHash    uint64               `json:"log_hash"` // hash over all runs' canonical logs (determinism self-test)
	RunHashes  []uint64             `json:"run_hashes,omitempty"`
}

func envInt(name string, def int) int {
	if v := os.Getenv(name); v != "" {
		if n, err := strconv.Atoi(v); err == nil {
			return n
		}
	}
	return def
}

func envU64(name string, def uint64) uint64 {
	if v := os.Getenv(name); v != "" {
		if n, err := strconv.ParseUint(v, 10, 64); err == nil {
			return n
		}
		if n, err := strconv.ParseInt(v, 10, 64); err == nil {
			return uint64(n)
		}
	}
	return def
}

func setMemLimit() {
	lim := uint64(envInt("VERIF_MEM_GB", 3)) << 30
	syscall.Setrlimit(syscall.RLIMIT_AS, &syscall.Rlimit{Cur: lim, Max: lim})
}

// startHangWatchdog kills the process when a single run takes too long in real time.
func startHangWatchdog(limit time.Duration) {
	go func() {
		for {
			time.Sleep(500 * time.Millisecond)
			st := runStart.Load()
			if st != 0 && time.Since(time.Unix(0, st)) > limit {
				buf := make([]byte, 1<<20)
				buf = buf[:runtime.Stack(buf, true)]
				if e := curEnv.Load(); e != nil {
					fmt.Fprintf(os.Stderr, "HANG-STATE seamParks=%d libParks=%d baseG=%d numG=%d forceDump=%v\n", e.seamParks.Load(), e.libParks.Load(), e.baseG, runtime.NumGoroutine(), e.forceDump)
				}
				fmt.Fprintf(os.Stderr, "HANG run=%v\n%s\n", curRun.Load(), buf)
				os.Exit(3)
			}
		}
	}()
}

type progress struct{ f *os.File }

func (p *progress) set(s string) {
	if p.f == nil {
		return
	}
	b := make([]byte, 200)
	for i := range b {
		b[i] = ' '
	}
	copy(b, s)
	p.f.WriteAt(b, 0)
}

func workerMain() int {
	setMemLimit()
	startHangWatchdog(time.Duration(envInt("VERIF_HANG_S", 25)) * time.Second)
	prop := os.Getenv("VERIF_PROP")
	p := registry[prop]
	if p == nil {
		fmt.Fprintf(os.Stderr, "unknown property %q\n", prop)
		return 4
	}
	thorough := os.Getenv("VERIF_TIER") == "thorough"
	base := envU64("VERIF_SEED", 1)
	widx, wn := envInt("VERIF_WIDX", 0), envInt("VERIF_WN", 1)
	budget := time.Duration(envInt("VERIF_BUDGET_MS", 5000)) * time.Millisecond
	maxRuns := envInt("VERIF_MAXRUNS", 1<<30)
	onlyScen := os.Getenv("VERIF_SCEN")
	noShrink := os.Getenv("VERIF_NOSHRINK") != ""
	var prog progress
	if pf := os.Getenv("VERIF_PROGRESS"); pf != "" {
		prog.f, _ = os.OpenFile(pf, os.O_CREATE|os.O_RDWR|os.O_TRUNC, 0644)
	}
	start := time.Now()
	out := &WorkerOut{Prop: prop, WIdx: widx, Scen: map[string]*ScenStat{}, Faults: map[string]int{}, Probes: map[string]int{}}
	hashes := map[uint64]bool{}
	seenSig := map[string]bool{}
	sampleN := map[string]int{}
	logH := uint64(1469598103934665603)

	account := func(sc *Scenario, res RunResult, idx uint64) {
		out.Runs++
		st := out.Scen[sc.Name]
		if st == nil {
			st = &ScenStat{}
			out.Scen[sc.Name] = st
		}
		st.Runs++
		if res.NonTriv {
			hashes[res.Hash] = true
		}
		for _, k := range sortedKeys(res.Faults) {
			out.Faults[k] += res.Faults[k]
		}
		for _, k := range sortedKeys(res.Probes) {
			out.Probes[k] += res.Probes[k]
		}
		out.SimNs += int64(res.SimSpan)
		if res.Leftover {
			out.Leftover++
		}
		// determinism hash: tape + canonical trace
		h0 := logH
		for _, v := range res.Tape {
			logH = (logH ^ uint64(v)) * 1099511628211
		}
		for _, d := range res.Detail {
			for i := 0; i < len(d); i++ {
				logH = (logH ^ uint64(d[i])) * 1099511628211
			}
		}
		if res.Viol != nil {
			for i := 0; i < len(res.Viol.Sig); i++ {
				logH = (logH ^ uint64(res.Viol.Sig[i])) * 1099511628211
			}
		}
		if dt := os.Getenv("VERIF_DUMPTRACE"); dt != "" && dt == fmt.Sprint(idx) {
			fmt.Fprintf(os.Stderr, "TRACE run %d tape=%v\n%s\nfaults=%v viol=%v\n", idx, res.Tape, strings.Join(res.Detail, "\n"), res.Faults, res.Viol)
		}
		if os.Getenv("VERIF_RUNHASHES") != "" {
			rh := uint64(1469598103934665603)
			for _, v := range res.Tape {
				rh = (rh ^ uint64(v)) * 1099511628211
			}
			for _, d := range res.Detail {
				for i := 0; i < len(d); i++ {
					rh = (rh ^ uint64(d[i])) * 1099511628211
				}
			}
			if res.Viol != nil {
				for i := 0; i < len(res.Viol.Sig); i++ {
					rh = (rh ^ uint64(res.Viol.Sig[i])) * 1099511628211
				}
			}
			for _, k := range sortedKeys(res.Faults) {
				rh = (rh ^ uint64(res.Faults[k])) * 1099511628211
			}
			out.RunHashes = append(out.RunHashes, rh)
		}
		_ = h0
		if res.HarnessE != "" {
			if len(out.Harness) < 5 {
				out.Harness = append(out.Harness, fmt.Sprintf("%s/%s case=%d seed=%d: %s", p.ID, sc.Name, res.Desc.Case, res.Desc.Seed, res.HarnessE))
			}
			return
		}
		if sampleN[sc.Name] < 2 && widx == 0 {
			sampleN[sc.Name]++
			tr := res.Detail
			if len(tr) > 40 {
				tr = append(append([]string{}, tr[:40]...), fmt.Sprintf("... (%d more)", len(res.Detail)-40))
			}
			js, _ := json.Marshal(map[string]interface{}{"scenario": sc.Name, "case": res.Desc.Case, "seed": res.Desc.Seed,
				"tape_len": len(res.Tape), "trace": tr})
			out.Samples = append(out.Samples, js)
		}
		if res.Viol != nil && !seenSig[res.Viol.Sig] && len(out.Viol) < 6 {
			seenSig[res.Viol.Sig] = true
			rec := ViolationRec{Sig: res.Viol.Sig, Detail: res.Viol.Detail, OrigLen: len(res.Tape), RunIndex: idx}
			min := res
			if !noShrink && !strings.Contains(res.Viol.Sig, "/frozen/") {
				// (a frozen bubble costs seconds of real time per attempt: reported unshrunk)
				min, rec.ShrinkN = shrink(p, sc, res, thorough, 1500, 25*time.Second)
			}
			rec.Desc = min.Desc
			rec.Desc.Tape = append([]uint32{}, min.Tape...)
			rec.MinLen = len(min.Tape)
			rec.Detail = min.Viol.Detail
			rec.Trace = min.Detail
			if len(rec.Trace) > 120 {
				rec.Trace = rec.Trace[:120]
			}
			out.Viol = append(out.Viol, rec)
			// also keep it on disk at once: a later run in this process may die (a violation can
			// poison process-wide library state), and the finding must survive that
			if of := os.Getenv("VERIF_OUT"); of != "" {
				if f, err := os.OpenFile(of+".viol", os.O_CREATE|os.O_APPEND|os.O_WRONLY, 0644); err == nil {
					js, _ := json.Marshal(rec)
					f.Write(append(js, '\n'))
					f.Close()
				}
			}
		}
	}

	// Phase 1: sweeps.
	for _, sc := range p.Scenarios {
		if sc.SweepN == nil || (onlyScen != "" && onlyScen != sc.Name) {
			continue
		}
		if (!thorough && !sc.QuickSweep) || os.Getenv("VERIF_NOSWEEP") != "" {
			continue
		}
		n := sc.SweepN(thorough)
		st := &ScenStat{SweepN: n, Exhaust: sc.Exhaustive}
		out.Scen[sc.Name] = st
		for k := widx; k < n; k += wn {
			d := RunDesc{Prop: p.ID, Scen: sc.Name, Case: k, Seed: mixSeed(base, p.ID, "sweep/"+sc.Name, uint64(k))}
			prog.set(fmt.Sprintf("%s %s %d %d", p.ID, sc.Name, k, d.Seed))
			res := runOne(p, sc, d, thorough)
			account(sc, res, uint64(k))
			st.SweepDone++
		}
	}
	// Phase 2: seeded search.
	hasSeeded := false
	for _, sc := range p.Scenarios {
		if sc.Weight > 0 {
			hasSeeded = true
		}
	}
	if hasSeeded && os.Getenv("VERIF_SWEEPONLY") == "" {
		for i := uint64(widx) + envU64("VERIF_START", 0); out.SeededRuns < maxRuns; i += uint64(wn) {
			if time.Since(start) > budget {
				break
			}
			seed := mixSeed(base, p.ID, "seeded", i)
			sc := p.pickScenario(seed)
			if onlyScen != "" {
				sc = p.scenario(onlyScen)
			}
			d := RunDesc{Prop: p.ID, Scen: sc.Name, Case: -1, Seed: seed}
			prog.set(fmt.Sprintf("%s %s -1 %d", p.ID, sc.Name, seed))
			res := runOne(p, sc, d, thorough)
			account(sc, res, i)
			out.SeededRuns++
		}
	}
	prog.set("done")
	for h := range hashes {
		out.Hashes = append(out.Hashes, h)
	}
	sort.Slice(out.Hashes, func(i, j int) bool { return out.Hashes[i] < out.Hashes[j] })
	out.WallMs = time.Since(start).Milliseconds()
	out.LogHash = logH
	js, _ := json.Marshal(out)
	if of := os.Getenv("VERIF_OUT"); of != "" {
		if err := os.WriteFile(of, js, 0644); err != nil {
			fmt.Fprintln(os.Stderr, err)
			return 4
		}
	} else {
		os.Stdout.Write(js)
		os.Stdout.Write([]byte("\n"))
	}
	return 0
}

// replayMain re-executes one recorded run and prints its outcome as JSON.
func replayMain() int {
	setMemLimit()
	startHangWatchdog(time.Duration(envInt("VERIF_HANG_S", 25)) * time.Second)
	b, err := os.ReadFile(os.Getenv("VERIF_REPLAY"))
	if err != nil {
		fmt.Fprintln(os.Stderr, err)
		return 4
	}
	var rf ReplayFile
	if err := json.Unmarshal(b, &rf); err != nil {
		fmt.Fprintln(os.Stderr, err)
		return 4
	}
	p := registry[rf.Desc.Prop]
	if p == nil {
		fmt.Fprintln(os.Stderr, "unknown property", rf.Desc.Prop)
		return 4
	}
	sc := p.scenario(rf.Desc.Scen)
	if sc == nil {
		fmt.Fprintln(os.Stderr, "unknown scenario", rf.Desc.Scen)
		return 4
	}
	var res RunResult
	if rf.History != nil {
		res = replayHistory(p, rf.History, rf.Desc, rf.Thorough)
	} else {
		res = runOne(p, sc, rf.Desc, rf.Thorough)
	}
	out := map[string]interface{}{"harness": res.HarnessE, "trace": res.Detail}
	if res.Viol != nil {
		out["sig"] = res.Viol.Sig
		out["detail"] = res.Viol.Detail
	}
	js, _ := json.Marshal(out)
	if of := os.Getenv("VERIF_OUT"); of != "" {
		os.WriteFile(of, js, 0644)
	} else {
		os.Stdout.Write(js)
		os.Stdout.Write([]byte("\n"))
	}
	return 0
}

// ReplayFile is the on-disk form of a violation.
type ReplayFile struct {
	Desc     RunDesc  `json:"run"`
	Thorough bool     `json:"thorough"`
	Sig      string   `json:"signature"`
	Detail   string   `json:"detail"`
	Trace    []string `json:"trace"`
	Note     string   `json:"note,omitempty"`
	// History, when set, says that the run only fails after the runs the same worker process
	// executed before it (state the library keeps process-wide): the replay re-executes them.
	History *HistSpec `json:"history,omitempty"`
}

// HistSpec identifies a worker's deterministic sequence of runs.
type HistSpec struct {
	Base uint64 `json:"base_seed"`
	WIdx int    `json:"worker"`
	WN   int    `json:"workers"`
}

// replayHistory re-executes, in order, every run the worker (h) executed up to and including
// the run d. Outcomes of the earlier runs are ignored: they only set the stage.
func replayHistory(p *Property, h *HistSpec, d RunDesc, thorough bool) RunResult {
	for _, sc := range p.Scenarios {
		if sc.SweepN == nil || (!thorough && !sc.QuickSweep) {
			continue
		}
		n := sc.SweepN(thorough)
		for k := h.WIdx; k < n; k += h.WN {
			rd := RunDesc{Prop: p.ID, Scen: sc.Name, Case: k, Seed: mixSeed(h.Base, p.ID, "sweep/"+sc.Name, uint64(k))}
			res := runOne(p, sc, rd, thorough)
			if rd.Scen == d.Scen && rd.Case == d.Case && rd.Seed == d.Seed {
				return res
			}
		}
	}
	for i := uint64(h.WIdx); i < 1<<24; i += uint64(h.WN) {
		seed := mixSeed(h.Base, p.ID, "seeded", i)
		sc := p.pickScenario(seed)
		rd := RunDesc{Prop: p.ID, Scen: sc.Name, Case: -1, Seed: seed}
		res := runOne(p, sc, rd, thorough)
		if rd.Scen == d.Scen && d.Case == -1 && rd.Seed == d.Seed {
			return res
		}
	}
	return RunResult{HarnessE: "history replay: the recorded run is not in the worker's sequence"}
}

// ---------------------------------------------------------------- shrinking

// shrink minimises the tape of a failing run while the same signature recurs.
func shrink(p *Property, sc *Scenario, fail RunResult, thorough bool, maxCand int, maxTime time.Duration) (RunResult, int) {
	best := fail
	sig := fail.Viol.Sig
	start := time.Now()
	n := 0
	abandoned := 0
	try := func(tape []uint32) bool {
		if n >= maxCand || time.Since(start) > maxTime {
			return false
		}
		n++
		d := RunDesc{Prop: p.ID, Scen: sc.Name, Case: fail.Desc.Case, Seed: fail.Desc.Seed, Tape: tape}
		r := runOne(p, sc, d, thorough)
		if r.Abandoned {
			abandoned++
			if abandoned > 150 {
				maxCand = n // every candidate leaves a stuck bubble behind: stop early
			}
		}
		if r.Viol != nil && r.Viol.Sig == sig && r.HarnessE == "" {
			// keep the tape as consumed (drops an unread tail)
			if len(r.Tape) > len(tape) {
				// the run read past the candidate (zeros); keep the candidate itself
				r.Tape = tape
			}
			best = r
			return true
		}
		return false
	}
	cp := func(t []uint32) []uint32 { return append([]uint32{}, t...) }
	// normalise: replay the recorded tape once (also proves in-process replay)
	if !try(cp(fail.Tape)) {
		return fail, n
	}
	for pass := 0; pass < 6; pass++ {
		progress := false
		// 1. truncate the tail (binary search for the shortest failing prefix)
		lo, hi := 0, len(best.Tape)
		for lo < hi && n < maxCand {
			mid := (lo + hi) / 2
			if try(cp(best.Tape[:mid])) {
				progress = true
				hi = mid
				if len(best.Tape) < hi {
					hi = len(best.Tape)
				}
			} else {
				lo = mid + 1
			}
		}
		// 2. delete whole steps (later first)
		marks := append([]int{}, best.Marks...)
		for i := len(marks) - 1; i >= 0; i-- {
			a := marks[i]
			b := len(best.Tape)
			if i+1 < len(marks) {
				b = marks[i+1]
			}
			if a >= len(best.Tape) || a >= b {
				continue
			}
			if b > len(best.Tape) {
				b = len(best.Tape)
			}
			cand := append(cp(best.Tape[:a]), best.Tape[b:]...)
			if try(cand) {
				progress = true
				marks = append([]int{}, best.Marks...)
				if i > len(marks) {
					i = len(marks)
				}
			}
			if n >= maxCand {
				break
			}
		}
		// 3. zero blocks, then single values
		for blk := 8; blk >= 1; blk /= 2 {
			for a := 0; a < len(best.Tape); a += blk {
				b := a + blk
				if b > len(best.Tape) {
					b = len(best.Tape)
				}
				nz := false
				for _, v := range best.Tape[a:b] {
					if v != 0 {
						nz = true
					}
				}
				if !nz {
					continue
				}
				cand := cp(best.Tape)
				for i := a; i < b; i++ {
					cand[i] = 0
				}
				if try(cand) {
					progress = true
				}
				if n >= maxCand {
					break
				}
			}
		}
		// 4. move values toward 0
		for i := 0; i < len(best.Tape); i++ {
			for best.Tape[i] > 0 {
				cand := cp(best.Tape)
				cand[i] = best.Tape[i] / 2
				if try(cand) {
					progress = true
					if i >= len(best.Tape) {
						break
					}
					continue
				}
				if best.Tape[i] > 1 {
					cand = cp(best.Tape)
					cand[i] = best.Tape[i] - 1
					if try(cand) {
						progress = true
						if i >= len(best.Tape) {
							break
						}
						continue
					}
				}
				break
			}
			if n >= maxCand {
				break
			}
		}
		if !progress || n >= maxCand || time.Since(start) > maxTime {
			break
		}
	}
	// drop trailing zeros (an exhausted tape reads as zeros)
	t := best.Tape
	for len(t) > 0 && t[len(t)-1] == 0 {
		t = t[:len(t)-1]
	}
	best.Tape = t
	return best, n
}
