#!/bin/bash
# runs every claimed property's thorough tier once (used with `vp run`)
cd "$(dirname "$0")"
for p in ${PROPS:-C05 C06 C07 C08 C09 C10 C11 C12 C13 C14 C15 C16 C19}; do
  t0=$(date +%s); ./check $p thorough > thorough.$p.log 2>&1; rc=$?; t1=$(date +%s)
  echo "$p rc=$rc wall=$((t1-t0))s $(grep -c VIOLATION thorough.$p.log) violations; $(grep 'dsim: runs=' thorough.$p.log)"
done
