#!/bin/bash
# Runs the repository's pinned test suite with the verif guard OFF (default toolchain,
# no build tag) and compares the set of passing tests with /root/.vp/BASELINE.json.
export GOFLAGS=-mod=mod GOPROXY=off GOSUMDB=off
out=$(mktemp)
(cd /repo && go test -mod=mod -json -vet=off -count=1 -timeout 25m ./... > "$out" 2>/dev/null)
python3 - "$out" <<'PY'
import json,sys
passed=set()
for l in open(sys.argv[1]):
    try: e=json.loads(l)
    except Exception: continue
    if e.get('Action')=='pass' and e.get('Test'):
        passed.add(e['Package']+'::'+e['Test'])
base=set(json.load(open('/root/.vp/BASELINE.json'))['stable_pass'])
missing=sorted(base-passed)
print("baseline stable tests: %d, passing now: %d, missing: %d"%(len(base),len(base&passed),len(missing)))
for m in missing: print("MISSING",m)
sys.exit(1 if missing else 0)
PY
rc=$?
rm -f "$out"
exit $rc
