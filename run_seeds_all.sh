#!/bin/bash
# quick tier of every claimed property under several batch seeds (false-alarm control; used with `vp run`)
cd "$(dirname "$0")"
for s in ${SEEDS:-1 2 3 4}; do
  for p in ${PROPS:-C05 C06 C07 C08 C09 C10 C11 C12 C13 C14 C15 C16 C19}; do
    VERIF_SEED=$s ./check $p quick > seeds.$p.$s.log 2>&1; rc=$?
    echo "seed=$s $p rc=$rc $(grep -c VIOLATION seeds.$p.$s.log) violations $(grep -o 'runs=[0-9]*' seeds.$p.$s.log | head -1)"
    [ $rc -ne 0 ] && grep "signature\|HARNESS" seeds.$p.$s.log | head -5
  done
done
