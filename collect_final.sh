#!/bin/bash
# collect_final.sh <vp run number> — copy the results of run_final_all.sh from the run's snapshot back into /verif
S=/root/.vp/runs/$1/verif
[ -d "$S" ] || { echo "no snapshot $S"; exit 2; }
for d in $S/seeded/*/; do n=$(basename $d); [ -f /verif/seeded/$n/meta.json ] || continue
python3 - "$d/meta.json" "/verif/seeded/$n/meta.json" <<'PY'
import json,sys
a=json.load(open(sys.argv[1])); b=json.load(open(sys.argv[2]))
b['detected_by']=a.get('detected_by',[])
json.dump(b,open(sys.argv[2],'w'),indent=1)
PY
done
cp $S/sensitivity/RESULTS.txt /verif/sensitivity/RESULTS.txt
cp $S/benign/RESULTS.txt /verif/benign/RESULTS.txt
cp $S/thorough.*.log $S/seeds.*.log /verif/.build/ 2>/dev/null
cd /verif && ./gen_matrix_md.py
